"""C06 — proto3 defaults and field presence: correspondence (T2), reference comparison (T3), oracle.

Every input is a *history* in a JSON-able form (so that replays and the corpus re-run it exactly):
  {"schema": "matrix" | ["random", seed, k], "class": <user class index>,
   "kwargs": {field: AV}, "sets": [[[path field names], field, AV], ...], "parse": hex | null,
   "from_dict": null | {"form": "class"|"instance", "dict": {...}}}
AV (abstract value): JSON scalar | {"hex": ..} bytes | {"dt": us} | {"td": us} | {"msg": {field: AV}} | [AV] | {"map": [[k, AV]]}.
The four ways of setting of the property are kwargs (constructor), sets (attribute assignment, possibly through a
path of lazily created sub-messages), parse (bytes written by the independent writer wiregen.write_records) and from_dict.

T2  the history is run on the real classes and on the model (construct / assign_path / parse_into of coq/Model, and
    Model/Json.v from_dict_cls / from_dict_inst for a from_dict history, evaluated by vm_compute): raw snapshot, bytes,
    is_set vector and the value every field reads as are compared.
Oracle  the clauses of C06 evaluated on the real object with the independent record reader wiregen.read_records.
T3  the spec-level presence predicates (has_record / last_member, the Python twin of coq/Spec/C06Wire.v) against
    google.protobuf's HasField / WhichOneof on the same bytes, and betterproto's reports against both.
Gap ties (the specification-side functions the sixth-batch theorems are stated over; helpers in coq/Model/C06GapCv.v):
 (1) parse_records / has_field_bytes / which_oneof_bytes are evaluated IN COQ on every distinct byte string the run meets
     (bytes(m) of every history, the spec-written records, the reference's re-encoding, the reference's own encoding of the sweep
     values) and compared with the independent record reader and with HasField / WhichOneof of the reference class on those bytes.
 (2) the oracle of C06_encode_presence: `is not None` of every optional-like field, which_one_of of every group and
     serialized_on_wire of every plain sub-message of the REAL object against the reference's reports on bytes(m); c01_value_ok
     and sow_ok are evaluated in Coq on the model of the same object (same evaluation as T2), together with the model's
     value_not_none / which_one_of / child_on_wire, which are compared with the real object's reports.
 (3) the implicit-presence converse with the schema-less record reader on every history (default: no record with the field's
     number; non-default: exactly one), and a dedicated sweep of every implicit-presence field x {default, representative and
     boundary values, -0.0, the float32 denormal, infinity} x {constructor, assignment} on which is_default / here /
     implicit_exact_kind are evaluated in Coq and compared with `value == _get_field_default` / bytes(m), and the reference's own
     encoding of the value says whether the record must be there.  -0.0 is the known finding K14 (class neg-zero-skipped).
"""
import base64
import json
import os
import random
import struct
import time
from datetime import datetime, timedelta, timezone

from .. import jsongen, lib, msggen, wiregen
from ..msggen import NBUILTIN, EPOCH

IMPORTS = ("Model.Types Model.Object Model.Eq Model.Encode Model.Decode Model.Canon Model.WellFormed Model.C06Obs "
           "Model.Json Spec.C06Wire gen.Tables")
EXTRA_TARGETS = ["Model/Canon.vo", "Model/Decode.vo", "Model/C06Obs.vo", "Model/Json.vo", "Spec/C06Wire.vo", "Model/C06GapCv.vo"]
GAP_IMPORTS = IMPORTS + " Model.C01Def Model.C06GapDefs Model.C06GapCv"

TRUSTED = [
    "Coq 8.16.1 kernel and vm_compute (no native_compute); full .vo build via coq_makefile",
    "axioms: none (every theorem of Properties/C06.v is 'Closed under the global context')",
    "hand-written model coq/Model/{Object,Eq,Float,TimeCore,Encode,Decode,C06Obs}.v tied to /repo by executable correspondence "
    "(this harness): construct / setattr / assign_path / parse_into / enc_obj / is_set / read are evaluated by vm_compute on the "
    "histories the implementation ran and compared with snapshots of the raw state of the real objects, bytes(m), Message.is_set "
    "and the attribute values",
    "specification coq/Spec/C06Wire.v, C06Zero.v (record grammar over Spec/Varint.v, has_record, last_member, proto3_default, presence "
    "classes of a field, zero values of the scalar types): its Python "
    "twin in this harness is validated against google.protobuf HasField / WhichOneof (T3) and the Coq functions are evaluated on "
    "the same record lists (vm_compute) and compared with the twin",
    "translator harness/gen_tables.py (type tables reflected into coq/gen/Tables.v)",
    "Python side: harness/msggen.py (schemas built with the public field API, snapshots through object.__getattribute__), "
    "harness/wiregen.py (independent record reader / writer), the AV -> object / JSON / records converters of this file, "
    "the in-memory construction of the google.protobuf twin classes (proto3_optional + synthetic oneofs, wrappers, Timestamp/Duration)",
    "gap ties: coq/Model/C06GapCv.v only prints, as canonical values, what parse_records / has_field_bytes / which_oneof_bytes "
    "(Model/C06GapDefs.v), c01_value_ok / sow_ok (Model/C01Def.v), value_not_none / child_on_wire / here (Model/C06Obs.v), "
    "which_one_of, is_default return; implicit_exact_kind_b in it is a boolean twin of the Prop implicit_exact_kind (same three "
    "disjuncts, no proof of equivalence); the hypotheses' values for an object are GUESSED in Python and the guess is what Coq "
    "confirms or corrects (a mismatching pair is re-evaluated against all four valuations)",
    "from_dict: the model is coq/Model/Json.v from_dict_cls / from_dict_inst (owned and validated by C04's check on to_dict outputs); "
    "here every from_dict cell of the matrix (mappings with explicit defaults, {} for sub-messages, absent keys; class and instance "
    "form) is additionally evaluated on that model by vm_compute and compared with the real object (snapshot, bytes, is_set, reads); "
    "coq/Model/C06Dict.v (key_index / dict_lookup / given_order / singular_json) is vocabulary of the theorems only",
    "Python object aliasing is modelled only for the one pattern the property needs (assign_path writes the mutated child back "
    "into its parent); oracles: google.protobuf 7.x (upb)",
]
ASSUMPTIONS = [
    "Python int is Z; str is its UTF-8 bytes; float is its binary64 pattern; aware datetimes are microseconds since the epoch",
    "wf_schema: unique field numbers in 1..2^29-1, proto3-optional and wrapper fields are not oneof members, type hints fit the proto types; "
    "C06_decode_presence additionally: the class table starts with betterproto's own Timestamp/Duration/wrapper classes (std_builtins), "
    "and the byte string is a concatenation of complete varint / fixed / length-delimited records (groups are outside its grammar)",
    "a value 'is the default' when Python's == says so (so -0.0 in a float field counts as the default 0.0, as in the code)",
    "presence is the explicit presence of proto3: optional fields, oneof members, wrapper and message fields; Message.is_set of an "
    "implicit-presence field (flips on a mere read, DESIGN K4) is not a presence report and belongs to C14",
]
RULE = ("the systematic schema (msggen.matrix_schema: every scalar kind, enum, message, Timestamp, Duration x {plain, optional, repeated, "
        "oneof member, map value, wrapper}) enumerated exhaustively: every field x {never set, type default, non-default} x {constructor, "
        "attribute assignment, parse, from_dict (class and instance form)}; then random histories over the systematic and random schemas: "
        "random subsets of fields set by kwargs and assignments (values default / boundary / typical, nested messages, assignments through "
        "paths of lazily created sub-messages of depth 1-3), optionally followed by parse() of spec-written records; from_dict in "
        "combination: every pair of members of every oneof group given in one mapping (both orders, class and instance form, default "
        "values: the class form must select the last in declaration order, the instance form the last in dict order, and emit exactly "
        "that member) and random mappings over random subsets of the fields (default / random values, explicit None, snake or camel "
        "keys, random key order, either form), all compared with Model/Json.v from_dict_cls / from_dict_inst; decoder streams: per "
        "class, random sequences of records for its explicit-presence fields with explicit defaults, duplicates, several members of one "
        "oneof, wire-type substitutions, unknown fields, padded varints; the implicit-presence sweep: every implicit-presence field "
        "(all scalar kinds, enum, Timestamp, Duration) of every schema x {default, representative / boundary non-default values; "
        "float and double also -0.0, 2^-149, infinity, a large negative} x {constructor, assignment}. non-trivial = at least one field set / one record; "
        "distinct = distinct (schema, class, history) resp. (class, bytes)")

MASK64 = (1 << 64) - 1
WRAPPER_NAME = {"bool": "BoolValue", "bytes": "BytesValue", "double": "DoubleValue", "float": "FloatValue", "int32": "Int32Value",
                "int64": "Int64Value", "string": "StringValue", "uint32": "UInt32Value", "uint64": "UInt64Value"}
VARINT_KINDS = {"enum", "bool", "int32", "int64", "uint32", "uint64", "sint32", "sint64"}
FIXED32_KINDS = {"float", "fixed32", "sfixed32"}
FIXED64_KINDS = {"double", "fixed64", "sfixed64"}


# --------------------------------------------------------------------------------------
# abstract values
# --------------------------------------------------------------------------------------
def us_dt(us):
    return EPOCH + timedelta(microseconds=us)


def to_py(schema, elem, av):
    """AV of one element -> the Python value a user would pass"""
    k = elem.kind
    if k == "scalar":
        if elem.pt == "bytes":
            return bytes.fromhex(av["hex"])
        if elem.pt in ("float", "double"):
            return float(av)
        return av
    if k == "enum":
        return schema.pyenums[elem.ref].try_value(av)
    if k == "datetime":
        return us_dt(av["dt"])
    if k == "timedelta":
        return timedelta(microseconds=av["td"])
    if k == "msg":
        c = schema.classes[elem.ref]
        return c.py(**{n: field_to_py(schema, fld(c, n), v) for n, v in av["msg"].items()})
    raise ValueError(elem)


def fld(c, name):
    for f in c.fields:
        if f.name == name:
            return f
    raise KeyError(name)


def field_to_py(schema, f, av):
    if f.card == "repeated":
        return [to_py(schema, f.elem, x) for x in av]
    if f.card == "map":
        return {to_py(schema, f.key, k): to_py(schema, f.elem, v) for k, v in av["map"]}
    return to_py(schema, f.elem, av)


def elem_default_av(elem):
    if elem.kind == "scalar":
        return {"double": 0.0, "float": 0.0, "bool": False, "string": "", "bytes": {"hex": ""}}.get(elem.pt, 0)
    if elem.kind == "enum":
        return 0
    if elem.kind == "datetime":
        return {"dt": 0}
    if elem.kind == "timedelta":
        return {"td": 0}
    return {"msg": {}}


def field_default_av(f):
    """the value 'the type default' for a field that is being SET (optional / wrapper: the zero of the inner type)"""
    if f.card == "repeated":
        return []
    if f.card == "map":
        return {"map": []}
    return elem_default_av(f.elem)


def scalar_av(pt, v):
    return {"hex": bytes(v).hex()} if pt == "bytes" else v


def elem_nondefault_avs(schema, elem, rng=None, depth=0):
    """representative non-default values of an element kind (first one is the canonical one)"""
    if elem.kind == "scalar":
        pt = elem.pt
        if pt == "bool":
            return [True]
        if pt == "string":
            return ["a", "héllo €"]
        if pt == "bytes":
            return [{"hex": "00"}, {"hex": "0a00ff"}]
        if pt in ("float", "double"):
            return [1.5, -2.0]
        lo, hi = msggen.INT_RANGE[pt]
        return [v for v in (5, -1, hi - 1, lo) if lo <= v < hi and v != 0]
    if elem.kind == "enum":
        nums = [n for _, n in schema.enums[elem.ref] if n != 0]
        return (nums[:2] or [7]) + [12345]
    if elem.kind == "datetime":
        return [{"dt": 1500000}, {"dt": -1}]
    if elem.kind == "timedelta":
        return [{"td": 1500000}, {"td": -2500000}]
    c = schema.classes[elem.ref]
    out = []
    for f in c.fields:
        if f.card == "plain" and f.elem.kind == "scalar" and f.group is None:
            out.append({"msg": {f.name: elem_nondefault_avs(schema, f.elem)[0]}})
            break
    return out  # a field-less class has no non-default value


def gen_elem_av(schema, elem, rng, depth):
    r = rng.random()
    if r < 0.3:
        return elem_default_av(elem)
    if elem.kind == "scalar":
        if r < 0.6:
            return rng.choice(elem_nondefault_avs(schema, elem))
        v = msggen.gen_scalar(elem.pt, rng, True)
        if isinstance(v, float) and v != v:
            v = 1.0
        if isinstance(v, float) and v in (float("inf"), float("-inf")):
            v = 2.5
        return scalar_av(elem.pt, v)
    if elem.kind == "enum":
        return rng.choice(elem_nondefault_avs(schema, elem) + [msggen.gen_int("enum", rng)])
    if elem.kind == "datetime":
        return {"dt": msggen.us_of_datetime(msggen.gen_datetime(rng))}
    if elem.kind == "timedelta":
        return {"td": msggen.us_of_timedelta(msggen.gen_timedelta(rng))}
    return {"msg": gen_kwargs_av(schema, elem.ref, rng, depth + 1)}


def gen_field_av(schema, f, rng, depth):
    if f.card == "repeated":
        return [gen_elem_av(schema, f.elem, rng, depth) for _ in range(rng.choice([0, 1, 2, 3]))]
    if f.card == "map":
        d = {}
        for _ in range(rng.choice([0, 1, 2])):
            k = msggen.gen_scalar(f.key.pt, rng, True)
            d[k] = gen_elem_av(schema, f.elem, rng, depth)
        return {"map": [[k, v] for k, v in d.items()]}
    return gen_elem_av(schema, f.elem, rng, depth)


def gen_kwargs_av(schema, ci, rng, depth=0):
    c = schema.classes[ci]
    p = rng.choice([0.0, 0.25, 0.5, 0.9]) if depth < 2 else rng.choice([0.0, 0.15])
    kw = {}
    for f in c.fields:
        if rng.random() >= p or (f.elem.kind == "msg" and depth >= 3):
            continue
        kw[f.name] = gen_field_av(schema, f, rng, depth)
    return kw


# --------------------------------------------------------------------------------------
# AV -> wire records, written independently of betterproto (always explicit: defaults are written too)
# --------------------------------------------------------------------------------------
def enc_scalar(pt, v):
    if pt in ("int32", "int64", "uint32", "uint64", "enum"):
        return 0, int(v) & MASK64
    if pt == "bool":
        return 0, 1 if v else 0
    if pt in ("sint32", "sint64"):
        v = int(v)
        return 0, ((v << 1) ^ (v >> 63)) & MASK64
    if pt == "fixed32":
        return 5, struct.pack("<I", v)
    if pt == "sfixed32":
        return 5, struct.pack("<i", v)
    if pt == "fixed64":
        return 1, struct.pack("<Q", v)
    if pt == "sfixed64":
        return 1, struct.pack("<q", v)
    if pt == "float":
        return 5, struct.pack("<f", v)
    if pt == "double":
        return 1, struct.pack("<d", v)
    if pt == "string":
        return 2, v.encode("utf-8")
    if pt == "bytes":
        return 2, bytes.fromhex(v["hex"]) if isinstance(v, dict) else bytes(v)
    raise ValueError(pt)


def enc_elem(schema, elem, av):
    """(wire type, payload) of one element"""
    if elem.kind == "scalar":
        return enc_scalar(elem.pt, av)
    if elem.kind == "enum":
        return enc_scalar("enum", av)
    if elem.kind == "datetime":
        us = av["dt"]
        s, n = us // 10 ** 6, (us % 10 ** 6) * 1000
        recs = ([(1, 0, s & MASK64)] if s else []) + ([(2, 0, n)] if n else [])
        return 2, wiregen.write_records(recs)
    if elem.kind == "timedelta":
        us = av["td"]
        sign = -1 if us < 0 else 1
        s, n = sign * (abs(us) // 10 ** 6), sign * (abs(us) % 10 ** 6) * 1000
        recs = ([(1, 0, s & MASK64)] if s else []) + ([(2, 0, n & MASK64)] if n else [])
        return 2, wiregen.write_records(recs)
    return 2, wiregen.write_records(msg_records(schema, elem.ref, av["msg"]))


def field_records(schema, f, av, explicit_inner=False):
    num = f.number
    if f.card == "wrapper":
        wt, p = enc_scalar(f.elem.pt, av)
        inner = [] if (av == elem_default_av(f.elem) and not explicit_inner) else [(1, wt, p)]
        return [(num, 2, wiregen.write_records(inner))]
    if f.card == "repeated":
        items = [enc_elem(schema, f.elem, x) for x in av]
        if f.elem.kind in ("scalar", "enum") and f.elem.pt not in ("string", "bytes"):
            if not items:
                return []
            return [(num, 2, b"".join(msggen.enc_varint(p) if wt == 0 else p for wt, p in items))]
        return [(num, wt, p) for wt, p in items]
    if f.card == "map":
        out = []
        for k, v in av["map"]:
            kw, kp = enc_scalar(f.key.pt, k)
            vw, vp = enc_elem(schema, f.elem, v)
            out.append((num, 2, wiregen.write_records([(1, kw, kp), (2, vw, vp)])))
        return out
    wt, p = enc_elem(schema, f.elem, av)
    return [(num, wt, p)]


def msg_records(schema, ci, kw):
    c = schema.classes[ci]
    out = []
    for n, av in kw.items():
        out.extend(field_records(schema, fld(c, n), av))
    return out


# --------------------------------------------------------------------------------------
# AV -> JSON (proto3 JSON mapping, enough of it for from_dict)
# --------------------------------------------------------------------------------------
class NoJson(Exception):
    pass


def elem_json(schema, elem, av, wrapper=False):
    if elem.kind == "scalar":
        pt = elem.pt
        if pt == "bytes":
            if wrapper:
                raise NoJson("bytes wrapper (C04)")
            return base64.b64encode(bytes.fromhex(av["hex"])).decode()
        if pt in ("int64", "uint64", "sint64", "fixed64", "sfixed64") and not wrapper:
            return str(av)
        return av
    if elem.kind == "enum":
        for n, v in schema.enums[elem.ref]:
            if v == av:
                return n
        return av
    if elem.kind == "datetime":
        return us_dt(av["dt"]).isoformat()
    if elem.kind == "timedelta":
        us = av["td"]
        if us % 500000:
            raise NoJson("timedelta fraction not exact in float")
        return f"{us / 10 ** 6:.3f}s"
    c = schema.classes[elem.ref]
    return {n: field_json(schema, fld(c, n), v) for n, v in av["msg"].items()}


def field_json(schema, f, av):
    if f.card == "repeated":
        return [elem_json(schema, f.elem, x) for x in av]
    if f.card == "map":
        if f.key.pt != "string" or (f.elem.kind == "scalar" and f.elem.pt not in ("int32", "string", "bool", "uint32", "sint32")) \
                or f.elem.kind in ("enum", "datetime", "timedelta"):
            raise NoJson("map conversions belong to C04")
        return {k: elem_json(schema, f.elem, v) for k, v in av["map"]}
    return elem_json(schema, f.elem, av, wrapper=f.card == "wrapper")


# --------------------------------------------------------------------------------------
# schemas
# --------------------------------------------------------------------------------------
def schema_of(ref, cache={}):
    key = json.dumps(ref)
    if key not in cache:
        if ref == "matrix":
            cache[key] = msggen.matrix_schema()
        else:
            _, seed, k = ref
            cache[key] = msggen.random_schema(random.Random(f"c06-{seed}-{k}"))
    return cache[key]


def presence_class(f):
    if f.card in ("repeated", "map", "wrapper", "optional"):
        return f.card
    if f.group is not None:
        return "oneof"
    if f.elem.kind == "msg":
        return "submsg"
    if f.elem.kind in ("datetime", "timedelta"):
        return "valuemsg"
    return "implicit"


def wt_fits(f, wt):
    """can a record of this wire type belong to the field (twin of fits in coq/Spec/C06Wire.v)"""
    if f.card == "map" or f.card == "wrapper":
        return wt == 2
    pt = f.elem.pt
    if f.elem.kind in ("msg", "datetime", "timedelta") or pt in ("string", "bytes"):
        return wt == 2
    base = 0 if pt in VARINT_KINDS else (5 if pt in FIXED32_KINDS else 1)
    return wt == base or (wt == 2 and f.card == "repeated")


def has_record(f, recs):
    return any(num == f.number and wt_fits(f, wt) for num, wt, _ in recs)


def last_member(c, g, recs):
    sel = ""
    by_num = {f.number: f for f in c.fields}
    for num, wt, _ in recs:
        f = by_num.get(num)
        if f is not None and f.group == g and wt_fits(f, wt):
            sel = f.name
    return sel


# --------------------------------------------------------------------------------------
# running one history on the implementation
# --------------------------------------------------------------------------------------
class Ran:
    pass


def run_history(schema, H):
    """returns Ran: m (real object or None), error (str|None), snapshot literal, model expression, depth of the deepest path"""
    import betterproto as bp
    r = Ran()
    ci = H["class"]
    c = schema.classes[ci]
    cidx = NBUILTIN + ci
    names = [f.name for f in c.fields]
    r.error, r.m, r.model, r.expr = None, None, None, None
    r.lazy_depth = max([len(p) for p, _, _ in H.get("sets", [])] + [0])
    kwlits, oplits = [], []
    try:
        if H.get("from_dict"):
            # the fourth way: the model is Model/Json.v from_dict_cls / from_dict_inst (the functions the C06_*_from_dict
            # theorems are about), evaluated on the same mapping
            fd = H["from_dict"]
            si = H.get("_si", 0)
            try:
                jl = jsongen.json_literal(fd["dict"])
                if fd["form"] == "class":
                    r.expr = f"(from_dict_cls sc{si} {cidx}%nat {jl})"
                else:
                    r.expr = f"(from_dict_inst sc{si} (new sc{si} {cidx}%nat) {jl})"
                r.model = f"(c06_obs sc{si} {r.expr})"
            except msggen.Unmodellable:
                r.model = r.expr = None
            try:
                r.m = c.py.from_dict(fd["dict"]) if fd["form"] == "class" else c.py().from_dict(fd["dict"])
                r.snapshot = msggen.obj_literal(schema, r.m)
            except msggen.Unmodellable as e:
                r.error, r.m, r.model, r.expr = "unmodellable: " + str(e), None, None, None
            except Exception as e:  # noqa
                r.error, r.m = f"{type(e).__name__}: {e}", None
            return r
        kwargs = {}
        for n, av in H.get("kwargs", {}).items():
            v = field_to_py(schema, fld(c, n), av)
            kwlits.append(f"({names.index(n)}%nat, {msggen.pv_literal(schema, v)})")
            kwargs[n] = v
        sets = []
        for path, n, av in H.get("sets", []):
            cc, idxs = c, []
            for p in path:
                pf = fld(cc, p)
                idxs.append([f.name for f in cc.fields].index(p))
                if pf.elem.kind != "msg" or pf.card in ("repeated", "map"):
                    raise msggen.Unmodellable("path through a non-message field")
                cc = schema.classes[pf.elem.ref]
            v = field_to_py(schema, fld(cc, n), av)
            li = [f.name for f in cc.fields].index(n)
            oplits.append(f"([{'; '.join(f'{i}%nat' for i in idxs)}], {li}%nat, {msggen.pv_literal(schema, v)})")
            sets.append((path, n, v))
    except msggen.Unmodellable as e:
        r.error = "unmodellable: " + str(e)
        return r
    data = bytes.fromhex(H["parse"]) if H.get("parse") is not None else None
    si = H.get("_si", 0)
    expr = f"(apply_sets sc{si} (construct sc{si} {cidx}%nat [{'; '.join(kwlits)}]) [{'; '.join(oplits)}])"
    if data is not None:
        expr = f"(do o <- {expr}; parse_into sc{si} o {lib.coq_bytes(data)})"
    r.model = f"(c06_obs sc{si} {expr})"
    r.expr = expr
    try:
        m = c.py(**kwargs)
        for path, n, v in sets:
            o = m
            for p in path:
                o = getattr(o, p)
            if not isinstance(o, bp.Message):
                raise AttributeError("not a message")
            setattr(o, n, v)
        if data is not None:
            m.parse(data)
        r.m = m
        r.snapshot = msggen.obj_literal(schema, m)
    except msggen.Unmodellable as e:
        r.error = "unmodellable: " + str(e)
        r.model = r.expr = None
    except Exception as e:  # noqa
        r.error = f"{type(e).__name__}: {e}"
        r.m = None
    return r


def observe(schema, H, r):
    """the implementation side of c06_obs, as a Gallina expression of type cv"""
    if r.m is None:
        return "(CE EOther)"
    c = schema.classes[H["class"]]
    m = r.m
    flags = [lib.cbool(m.is_set(f.name)) for f in c.fields]
    reads = []   # before bytes(): the value a read returns is snapshotted as it is at that moment (bytes() walks into children)
    for f in c.fields:
        try:
            reads.append(f"(cv_of_pv {msggen.pv_literal(schema, getattr(m, f.name))})")
        except AttributeError:
            reads.append("(CE EOther)")
    try:
        b = lib.cb(bytes(m))
    except Exception:  # noqa
        b = "(CE EOther)"
    return f"(CL [cv_of_obj {r.snapshot}; {b}; CL [{'; '.join(flags)}]; CL [{'; '.join(reads)}]])"


# --------------------------------------------------------------------------------------
# the oracle: C06 on the real object
# --------------------------------------------------------------------------------------
def raw_of(m, name):
    return object.__getattribute__(m, name)


def py_default(schema, f):
    """proto3 default of a field, written independently of betterproto's default_gen"""
    if f.card in ("optional", "wrapper"):
        return None
    if f.card == "repeated":
        return []
    if f.card == "map":
        return {}
    e = f.elem
    if e.kind == "scalar":
        return {"double": 0.0, "float": 0.0, "bool": False, "string": "", "bytes": b""}.get(e.pt, 0)
    if e.kind == "enum":
        return 0
    if e.kind == "datetime":
        return datetime(1970, 1, 1, tzinfo=timezone.utc)
    if e.kind == "timedelta":
        return timedelta(0)
    return "default-message"


def is_default_message(schema, ci, v, depth=0):
    """a message every field of which is unset (reads as its default, encodes to nothing)"""
    import betterproto as bp
    c = schema.classes[ci]
    if type(v) is not c.py or depth > 3:
        return type(v) is c.py
    if bytes(v) != b"":
        return False
    return True


def check_fresh(schema, ci):
    """bytes(Cls()) == b'' and every field reads as its proto3 default; unselected oneof members raise AttributeError"""
    import betterproto as bp
    c = schema.classes[ci]
    problems = []
    m = c.py()
    if bytes(m) != b"":
        problems.append(f"bytes({c.name}()) = {bytes(m).hex()}")
    if len(m) != 0:
        problems.append(f"len({c.name}()) = {len(m)}")
    if bp.serialized_on_wire(m):
        problems.append("serialized_on_wire of a fresh message")
    for f in c.fields:
        m = c.py()
        if f.card == "optional" and m.is_set(f.name):
            problems.append(f"is_set({f.name}) on a fresh message")
        if f.group is not None:
            try:
                v = getattr(m, f.name)
                problems.append(f"unselected oneof member {f.name} reads {v!r} instead of raising AttributeError")
            except AttributeError:
                pass
            if bp.which_one_of(m, f"g{f.group}") != ("", None):
                problems.append(f"which_one_of(g{f.group}) on a fresh message is {bp.which_one_of(m, f'g{f.group}')!r}")
            continue
        v = getattr(m, f.name)
        d = py_default(schema, f)
        if d == "default-message":
            ok = is_default_message(schema, f.elem.ref, v) and not bp.serialized_on_wire(v)
        elif isinstance(d, float):
            ok = isinstance(v, float) and v == 0.0 and str(v) == "0.0"
        else:
            ok = v == d and type(v) is type(d) or (f.elem.kind == "enum" and d == 0 and int(v) == 0 and isinstance(v, int))
        if not ok:
            problems.append(f"fresh {c.name}.{f.name} reads {v!r}, proto3 default is {d!r}")
        if bytes(m) != b"":
            problems.append(f"reading {f.name} of a fresh message changes its bytes to {bytes(m).hex()}")
    return problems


def sow_descendants(schema, c, m):
    """paths (field numbers) of plain sub-message descendants, reached through raw attributes, whose flag is raised"""
    import betterproto as bp
    out = []
    for f in c.fields:
        if presence_class(f) != "submsg":
            continue
        ch = raw_of(m, f.name)
        if isinstance(ch, bp.Message):
            if bp.serialized_on_wire(ch):
                out.append([f.number])
            out.extend([[f.number] + p for p in sow_descendants(schema, schema.classes[f.elem.ref], ch)])
    return out


def check_object(schema, ci, m, b=None, depth=0):
    """the emission clauses of C06 on one real object (and, recursively, on its present plain sub-messages).
    Returns a list of (class label, text)."""
    import betterproto as bp
    c = schema.classes[ci]
    out = []
    try:
        b = bytes(m) if b is None else b
    except Exception as e:  # noqa  (histories here use in-range values only)
        return [(None, f"bytes() of a {c.name} raises {type(e).__name__}")]
    try:
        recs = wiregen.read_records(b)
    except wiregen.WireError as e:
        return [(None, f"bytes(m) is not a sequence of records: {e}")]
    for f in c.fields:
        pc = presence_class(f)
        mine = [r for r in recs if r[0] == f.number]
        fitting = [r for r in mine if wt_fits(f, r[1])]
        n = len(fitting)
        raw = raw_of(m, f.name)
        if f.group is not None:
            sel = bp.which_one_of(m, f"g{f.group}")[0]
            want = 1 if sel == f.name else 0
            if n != want:
                out.append((None, f"oneof member {f.name}: which_one_of says {sel!r} but {n} record(s) emitted"))
            continue
        if pc == "implicit" or pc == "valuemsg":
            d = py_default(schema, f)
            isdef = raw is bp.PLACEHOLDER or raw == d
            if isdef and n:
                out.append((None, f"implicit-presence field {f.name} holds its default {raw!r} but is emitted"))
            if not isdef and n != 1:
                out.append((None, f"field {f.name} holds non-default {raw!r} but {n} record(s) emitted"))
        elif pc == "optional":
            want = 0 if raw is None else 1
            if m.is_set(f.name) != (raw is not None):
                out.append((None, f"is_set({f.name}) = {m.is_set(f.name)} with raw value {raw!r}"))
            if n != want:
                out.append((None, f"optional field {f.name} = {raw!r}: {n} record(s) emitted, expected {want}"))
        elif pc == "wrapper":
            want = 0 if (raw is None or raw is bp.PLACEHOLDER) else 1
            if n != want:
                out.append((None, f"wrapper field {f.name} = {raw!r}: {n} record(s) emitted, expected {want}"))
        elif pc == "submsg":
            child = raw if isinstance(raw, bp.Message) else None
            flag = bool(child is not None and bp.serialized_on_wire(child))
            if (n == 1) != flag or n > 1:
                out.append(("submsg-flag", f"sub-message {f.name}: serialized_on_wire = {flag} but {n} record(s) emitted"))
            if child is not None and n == 0:
                deep = sow_descendants(schema, schema.classes[f.elem.ref], child)
                if deep:
                    out.append(("submsg-flag", f"serialized_on_wire is true for a descendant at path {[f.number] + deep[0]} of {c.name} "
                                               f"but nothing is emitted for {f.name}"))
            if child is not None and n == 1 and depth < 4:
                out.extend(check_object(schema, f.elem.ref, child, fitting[0][2], depth + 1))
        elif pc == "repeated":
            size = 0 if raw is bp.PLACEHOLDER else len(raw)
            if (n > 0) != (size > 0):
                out.append((None, f"repeated field {f.name} has {size} element(s) but {n} record(s)"))
        elif pc == "map":
            size = 0 if raw is bp.PLACEHOLDER else len(raw)
            if n != size:
                out.append((None, f"map field {f.name} has {size} entr(y/ies) but {n} record(s)"))
    return out


def expected_cell(schema, f, state, way):
    """what the single-field cell must show: (records with the field's number, reported set)"""
    pc = presence_class(f)
    if state == "never":
        return 0, False
    if pc in ("implicit", "valuemsg"):
        return (0 if state == "default" else 1), None
    if pc in ("optional", "oneof", "wrapper"):
        return 1, True
    if pc == "submsg":
        fieldless = not schema.classes[f.elem.ref].fields
        flag = state == "nondefault" or way == "parse" or way.startswith("from_dict") or fieldless
        return (1 if flag else 0), flag
    if pc in ("repeated", "map"):
        return (0 if state == "default" else None), None   # None: at least one
    raise ValueError(pc)


def reported(schema, c, f, m):
    import betterproto as bp
    pc = presence_class(f)
    if pc == "optional":
        return m.is_set(f.name)
    if pc == "oneof":
        return bp.which_one_of(m, f"g{f.group}")[0] == f.name
    if pc == "wrapper":
        raw = raw_of(m, f.name)
        return raw is not None and raw is not bp.PLACEHOLDER
    if pc == "submsg":
        raw = raw_of(m, f.name)
        return isinstance(raw, bp.Message) and bp.serialized_on_wire(raw)
    if pc == "valuemsg":
        return m.is_set(f.name)
    return None


# --------------------------------------------------------------------------------------
# T3: the reference
# --------------------------------------------------------------------------------------
def build_ref(schema, tag):
    from google.protobuf import descriptor_pb2, descriptor_pool, message_factory, wrappers_pb2, timestamp_pb2, duration_pb2
    T = descriptor_pb2.FieldDescriptorProto
    pool = descriptor_pool.DescriptorPool()
    for mod in (wrappers_pb2, timestamp_pb2, duration_pb2):
        pool.AddSerializedFile(mod.DESCRIPTOR.serialized_pb)
    fdp = descriptor_pb2.FileDescriptorProto(name=f"{tag}.proto", package=tag, syntax="proto3")
    fdp.dependency.extend(["google/protobuf/wrappers.proto", "google/protobuf/timestamp.proto", "google/protobuf/duration.proto"])
    for i, members in enumerate(schema.enums):
        e = fdp.enum_type.add(name=f"E{i}")
        if len({v for _, v in members}) < len(members):
            e.options.allow_alias = True
        for n, v in members:
            e.value.add(name=f"E{i}_{n}", number=v)
    for c in schema.classes:
        d = fdp.message_type.add(name=c.name)
        used = sorted({f.group for f in c.fields if f.group is not None})   # a oneof without members cannot be declared
        for g in used:
            d.oneof_decl.add(name=f"g{g}")
        nsynth = 0
        for f in c.fields:
            if f.card == "map":
                continue   # maps carry no presence; the reference keeps them as unknown fields
            fd = d.field.add(name=f.name, number=f.number,
                             label=T.LABEL_REPEATED if f.card == "repeated" else T.LABEL_OPTIONAL)
            e = f.elem
            if f.card == "wrapper":
                fd.type, fd.type_name = T.TYPE_MESSAGE, f".google.protobuf.{WRAPPER_NAME[e.pt]}"
            elif e.kind == "scalar":
                fd.type = getattr(T, "TYPE_" + e.pt.upper())
            elif e.kind == "enum":
                fd.type, fd.type_name = T.TYPE_ENUM, f".{tag}.E{e.ref}"
            elif e.kind == "msg":
                fd.type, fd.type_name = T.TYPE_MESSAGE, f".{tag}.{schema.classes[e.ref].name}"
            elif e.kind == "datetime":
                fd.type, fd.type_name = T.TYPE_MESSAGE, ".google.protobuf.Timestamp"
            else:
                fd.type, fd.type_name = T.TYPE_MESSAGE, ".google.protobuf.Duration"
            if f.group is not None:
                fd.oneof_index = used.index(f.group)
        for fd, f in zip(d.field, [f for f in c.fields if f.card != "map"]):
            if f.card == "optional":
                fd.proto3_optional = True
                d.oneof_decl.add(name=f"_{f.name}")
                fd.oneof_index = len(used) + nsynth
                nsynth += 1
    pool.Add(fdp)
    return {c.name: message_factory.GetMessageClass(pool.FindMessageTypeByName(f"{tag}.{c.name}")) for c in schema.classes}


def t3_compare(ctx, schema, ci, refs, bs, source):
    """presence after decoding: spec predicate vs reference (T3), betterproto vs reference (oracle)"""
    import betterproto as bp
    from google.protobuf.message import DecodeError
    c = schema.classes[ci]
    try:
        ref = refs[c.name].FromString(bs)
    except DecodeError:
        ctx.count("t3:reference_rejects")
        return
    try:
        recs = wiregen.read_records(bs)
    except wiregen.WireError:
        recs = None
    try:
        m = c.py().parse(bs)
    except Exception:  # noqa  (rejecting what the reference accepts is C02 / C17's concern)
        ctx.count("t3:betterproto_rejects")
        return
    ctx.count("t3:compared")
    inp = {"schema": schema.describe()[c.name], "class": c.name, "bytes": bs.hex(), "source": source}
    for f in c.fields:
        pc = presence_class(f)
        if pc in ("optional", "wrapper", "submsg", "valuemsg"):
            want = ref.HasField(f.name)
            if recs is not None and all(r[1] != 3 for r in recs) and has_record(f, recs) != want:
                ctx.fail("corr", f"broken spec: has_record({f.name}) = {not want} but reference HasField = {want}", input=inp,
                         theorem_or_correspondence="T3 Spec/C06Wire.has_record <-> google.protobuf HasField")
            got = reported(schema, c, f, m)
            if got != want:
                ctx.fail("oracle", f"after decoding, {pc} field {f.name} is reported set = {got} but the reference's HasField = {want}",
                         cls=None, input=inp)
    for g in range(c.ngroups):
        want = (ref.WhichOneof(f"g{g}") or "") if any(f.group == g for f in c.fields) else ""
        if recs is not None and all(r[1] != 3 for r in recs) and last_member(c, g, recs) != want:
            ctx.fail("corr", f"broken spec: last_member(g{g}) = {last_member(c, g, recs)!r} but reference WhichOneof = {want!r}", input=inp,
                     theorem_or_correspondence="T3 Spec/C06Wire.last_member <-> google.protobuf WhichOneof")
        got = bp.which_one_of(m, f"g{g}")[0]
        if got != want:
            ctx.fail("oracle", f"after decoding, which_one_of(g{g}) = {got!r} but the reference's WhichOneof = {want!r}", cls=None, input=inp)


# --------------------------------------------------------------------------------------
# the gap ties: the specification-side functions of the sixth-batch theorems against the reference / the implementation
# --------------------------------------------------------------------------------------
HASFIELD_CLASSES = ("optional", "wrapper", "submsg", "valuemsg")   # the kinds HasField is defined for and has_record models
CLS_NEGZERO = "neg-zero-skipped"                                   # K14 (known_findings/C16.json, same label here)


def records_literal(recs):
    """wiregen records (no groups) as the cv c06_gap_records prints"""
    return lib.cl([lib.cl([lib.cz(num), lib.cz(wt), lib.cz(p if wt == 0 else 0), lib.cb(b"" if wt == 0 else p)])
                   for num, wt, p in recs])


def gap_bytes_pair(schema, si, ci, ref, bs):
    """(1): one byte string -> (model expression, expected literal, problems).  The record list is compared with the
    independent Python reader, has_field_bytes / which_oneof_bytes with HasField / WhichOneof of the reference message `ref`
    decoded from the same bytes (ref is None: the reference rejects the bytes, only the records are compared)."""
    c = schema.classes[ci]
    problems = []
    try:
        recs = wiregen.read_records(bs)
    except wiregen.WireError:
        recs = None
    spec_ok = recs is not None and all(r[1] != 3 for r in recs)     # groups are outside the grammar of Spec/C06Wire.v
    rec_lit = records_literal(recs) if spec_ok else "(CE EOther)"
    if ref is None:
        return f"(c06_gap_records {lib.coq_bytes(bs)})", rec_lit, problems
    if recs is None:
        problems.append("the record reader rejects a byte string the reference accepts")
    names = [f.name for f in c.fields]
    idxs = [i for i, f in enumerate(c.fields) if presence_class(f) in HASFIELD_CLASSES]
    has = [(lib.cbool(ref.HasField(c.fields[i].name)) if spec_ok else "(CE EOther)") for i in idxs]
    which = []
    for g in range(c.ngroups):
        w = (ref.WhichOneof(f"g{g}") or "") if any(f.group == g for f in c.fields) else ""
        which.append("(CE EOther)" if not spec_ok else (lib.cz(names.index(w)) if w else lib.CN))
    expr = (f"(c06_gap_bytes_obs sc{si} {NBUILTIN + ci}%nat [{'; '.join(f'{i}%nat' for i in idxs)}] {lib.coq_bytes(bs)})")
    return expr, lib.cl([rec_lit, lib.cl(has), lib.cl(which)]), problems


def real_presence(schema, c, m):
    """what the REAL object reports, in the vocabulary of C06_encode_presence: not-None-ness of each optional-like field,
    which_one_of of each group, serialized_on_wire of each plain sub-message.  Returns (io, nn, which, im, sow)."""
    import betterproto as bp
    io = [i for i, f in enumerate(c.fields) if presence_class(f) in ("optional", "wrapper")]
    im = [i for i, f in enumerate(c.fields) if presence_class(f) == "submsg"]
    nn = []
    for i in io:
        try:
            nn.append(getattr(m, c.fields[i].name) is not None)
        except AttributeError:
            nn.append(False)
    which = [bp.which_one_of(m, f"g{g}")[0] for g in range(c.ngroups)]
    sow = []
    for i in im:
        ch = raw_of(m, c.fields[i].name)
        sow.append(bool(isinstance(ch, bp.Message) and bp.serialized_on_wire(ch)))
    return io, nn, which, im, sow


def enc_presence_disagreements(schema, c, m, ref):
    """(2): the conclusion of C06_encode_presence with the reference in the place of has_record / last_member:
    the real object's reports against HasField / WhichOneof of the reference message decoded from bytes(m)"""
    io, nn, which, im, sow = real_presence(schema, c, m)
    out = []
    for i, v in zip(io, nn):
        want = ref.HasField(c.fields[i].name)
        if v != want:
            out.append(f"{presence_class(c.fields[i])} field {c.fields[i].name}: `is not None` = {v} on the object but the reference's "
                       f"HasField on bytes(m) = {want}")
    for g, w in enumerate(which):
        want = (ref.WhichOneof(f"g{g}") or "") if any(f.group == g for f in c.fields) else ""
        if w != want:
            out.append(f"which_one_of(g{g}) = {w!r} on the object but the reference's WhichOneof on bytes(m) = {want!r}")
    for i, v in zip(im, sow):
        want = ref.HasField(c.fields[i].name)
        if v != want:
            out.append(f"plain sub-message {c.fields[i].name}: serialized_on_wire = {v} on the object but the reference's HasField "
                       f"on bytes(m) = {want}")
    return out


def guess_value_ok(m, depth=0):
    """Python GUESS of c01_value_ok on the objects this check generates (values are in range): no message inside keeps unknown
    bytes, and a oneof member that is not the selected one holds PLACEHOLDER.  Only used to predict what Coq will compute
    (one evaluation instead of two); the hypothesis itself is evaluated in Coq."""
    import betterproto as bp
    try:
        if raw_of(m, "_unknown_fields"):
            return False
        cur = raw_of(m, "_group_current")
        for name, group in m._betterproto.oneof_group_by_field.items():
            if cur.get(group) != name and raw_of(m, name) is not bp.PLACEHOLDER:
                return False
        if depth > 6:
            return True
        for fd in m.__dataclass_fields__:
            v = raw_of(m, fd)
            vs = v if isinstance(v, list) else (list(v.values()) if isinstance(v, dict) else [v])
            for x in vs:
                if isinstance(x, bp.Message) and not guess_value_ok(x, depth + 1):
                    return False
    except Exception:  # noqa
        return True
    return True


def guess_sow_ok(c, m):
    """Python GUESS of sow_ok (Model/C01Def.v): a message held in a singular position whose flag is down is an all-default one in
    a plain, unselected position; a selected message member holds a message.  Same role as guess_value_ok."""
    import betterproto as bp
    try:
        cur = raw_of(m, "_group_current")
        for f in c.fields:
            if f.card in ("repeated", "map"):
                continue
            raw = raw_of(m, f.name)
            sel = f.group is not None and cur.get(f"g{f.group}") == f.name
            if isinstance(raw, bp.Message) and not bp.serialized_on_wire(raw) and (sel or f.card == "optional" or bytes(raw) != b""):
                return False
            if raw is bp.PLACEHOLDER and f.elem.kind == "msg" and sel:
                return False
    except Exception:  # noqa
        return True
    return True


def is_neg_zero(v):
    return isinstance(v, float) and v == 0.0 and struct.pack("<d", v) != bytes(8)


def proto_default_value(f, raw):
    """is the value the proto3 default of the implicit-presence field, judged WITHOUT Python's == on floats (the zero bit
    pattern, the empty string, the epoch, the zero span): -0.0 is not"""
    import betterproto as bp
    if raw is bp.PLACEHOLDER:
        return True
    e = f.elem
    if e.kind == "scalar":
        if e.pt in ("float", "double"):
            return isinstance(raw, (int, float)) and raw == 0 and not is_neg_zero(raw)
        if e.pt == "bool":
            return raw is False or (not isinstance(raw, bool) and raw == 0)
        if e.pt == "string":
            return raw == ""
        if e.pt == "bytes":
            return bytes(raw) == b""
        return int(raw) == 0
    if e.kind == "enum":
        return int(raw) == 0
    if e.kind == "datetime":
        return raw == EPOCH
    if e.kind == "timedelta":
        return raw == timedelta(0)
    raise ValueError(e.kind)


def implicit_converse(schema, c, m, b):
    """(3): with the schema-less record reader: an implicit-presence field holding its default has NO record with its
    number in bytes(m), one holding a non-default value has exactly one (C06_implicit_emit_iff_partial,
    C06_implicit_nondefault_emit; Timestamp / Duration fields are observed the same way).  Unknown fields kept by the object
    are re-emitted under whatever number they came with, so with unknown bytes only records of a fitting wire type count.
    Returns [(class label, text)] and the tally {(kind, default?, present?): n}."""
    out, tally = [], {}
    try:
        recs = wiregen.read_records(b)
    except wiregen.WireError as e:
        return [(None, f"bytes(m) is not a sequence of records: {e}")], tally
    unk = bool(raw_of(m, "_unknown_fields"))
    for f in c.fields:
        pc = presence_class(f)
        if pc not in ("implicit", "valuemsg"):
            continue
        raw = raw_of(m, f.name)
        n = len([r for r in recs if r[0] == f.number and (not unk or wt_fits(f, r[1]))])
        isdef = proto_default_value(f, raw)
        key = (pc, "default" if isdef else ("neg-zero" if is_neg_zero(raw) else "non-default"), "absent" if n == 0 else "present")
        tally[key] = tally.get(key, 0) + 1
        if isdef and n:
            out.append((None, f"{pc} field {f.name} (number {f.number}) holds its default {raw!r} but bytes(m) has {n} record(s) "
                              f"with its number"))
        if not isdef and n != 1:
            cls = CLS_NEGZERO if (is_neg_zero(raw) and n == 0) else None
            out.append((cls, f"{pc} field {f.name} (number {f.number}) holds the non-default value {raw!r} but bytes(m) has {n} "
                             f"record(s) with its number"))
    return out, tally


def exact_kind_py(f):
    """Python twin of implicit_exact_kind (Model/C06GapDefs.v): varint / fixed kinds, str, bytes"""
    return f.elem.kind in ("scalar", "enum")


def sweep_values(schema, f):
    """(3) the values of the dedicated sweep of one implicit-presence field: the default, every representative non-default
    value, boundaries; float / double additionally -0.0, the smallest float32 denormal and infinity"""
    vals = [elem_default_av(f.elem)] + list(elem_nondefault_avs(schema, f.elem))
    if f.elem.kind == "scalar" and f.elem.pt in ("float", "double"):
        vals += [-0.0, 2.0 ** -149, float("inf"), -1.0e30 if f.elem.pt == "double" else -65536.0]
    if f.elem.kind == "scalar" and f.elem.pt == "string":
        vals += ["\x00"]
    return vals


def ref_set(ref, f, schema, av):
    """set the field of a reference message to the abstract value (scalars, enums, Timestamp, Duration)"""
    e = f.elem
    if e.kind in ("scalar", "enum"):
        setattr(ref, f.name, bytes.fromhex(av["hex"]) if e.kind == "scalar" and e.pt == "bytes" else av)
    elif e.kind == "datetime":
        getattr(ref, f.name).FromMicroseconds(av["dt"])
    elif e.kind == "timedelta":
        getattr(ref, f.name).FromMicroseconds(av["td"])
    else:
        raise ValueError(e.kind)


# --------------------------------------------------------------------------------------
# decoder streams aimed at presence
# --------------------------------------------------------------------------------------
def presence_stream(schema, ci, rng):
    c = schema.classes[ci]
    cands = [f for f in c.fields if f.card != "map"]
    if not cands:
        return msggen.gen_unknown(rng, set())
    recs = []
    for _ in range(rng.choice([1, 1, 2, 3, 5])):
        f = rng.choice(cands)
        r = rng.random()
        try:
            if r < 0.35:
                av = field_default_av(f)
                if f.card == "repeated":
                    fr = [(f.number, 2, b"")] if wt_fits(f, 2) and rng.random() < 0.5 else []
                else:
                    fr = field_records(schema, f, av, explicit_inner=rng.random() < 0.3)
            else:
                fr = field_records(schema, f, gen_field_av(schema, f, rng, 1))
        except Exception:  # noqa
            continue
        if fr and rng.random() < 0.12:
            # wire-type substitution on a known number: the record no longer belongs to the field
            num, wt, p = fr[0]
            nwt = rng.choice([w for w in (0, 1, 2, 5) if w != wt])
            p2 = {0: rng.choice([0, 1, 300]), 1: bytes(8), 5: bytes(4), 2: rng.choice([b"", b"\x08\x01"])}[nwt]
            fr = [(num, nwt, p2)]
        recs.extend(fr)
        if rng.random() < 0.2:
            recs.extend(wiregen.read_records(msggen.gen_unknown(rng, {f.number for f in c.fields}, n=1)))
    return wiregen.write_records(recs, rng, pad=rng.random() < 0.3)


# --------------------------------------------------------------------------------------
def matrix_histories(schema, sref):
    """every field x {never, default, nondefault} x {ctor, setattr, parse, from_dict x2}"""
    out = []
    for ci, c in enumerate(schema.classes):
        base = {"schema": sref, "class": ci}
        for f in c.fields:
            states = [("never", None), ("default", field_default_av(f))]
            nd = elem_nondefault_avs(schema, f.elem)
            for k, av in enumerate(nd[:2]):
                if f.card == "repeated":
                    av = [av] if k == 0 else [av, elem_default_av(f.elem)]
                elif f.card == "map":
                    key = {"bool": True, "string": "k"}.get(f.key.pt, 7)
                    av = {"map": [[key, av]]} if k == 0 else {"map": [[key, av], [elem_default_av(f.key), elem_default_av(f.elem)]]}
                states.append(("nondefault", av))
            for state, av in states:
                for way in ("ctor", "setattr", "parse", "from_dict", "from_dict_instance"):
                    H = dict(base)
                    cell = {"field": f.name, "state": state, "way": way}
                    if state != "never":
                        if way == "ctor":
                            H["kwargs"] = {f.name: av}
                        elif way == "setattr":
                            H["sets"] = [[[], f.name, av]]
                        elif way == "parse":
                            H["parse"] = wiregen.write_records(field_records(schema, f, av)).hex()
                        else:
                            try:
                                d = {f.name: field_json(schema, f, av)}
                            except NoJson:
                                continue
                            H["from_dict"] = {"form": "class" if way == "from_dict" else "instance", "dict": d}
                    else:
                        if way == "parse":
                            H["parse"] = ""
                        elif way.startswith("from_dict"):
                            H["from_dict"] = {"form": "class" if way == "from_dict" else "instance", "dict": {}}
                    out.append((H, cell))
    return out


def message_paths(schema, ci, maxdepth):
    """paths of plain (ungrouped) message fields starting at class ci: lists of field names"""
    out = []

    def go(cc, path):
        if len(path) >= maxdepth:
            return
        for f in schema.classes[cc].fields:
            if f.elem.kind == "msg" and f.card == "plain" and f.group is None:
                out.append((path + [f.name], f.elem.ref))
                go(f.elem.ref, path + [f.name])
    go(ci, [])
    return out


def lazy_histories(schema, sref):
    """assignments through lazily created intermediates, depth 1..3, default and non-default leaf values"""
    out = []
    for ci, c in enumerate(schema.classes):
        for path, leafc in message_paths(schema, ci, 3):
            for f in schema.classes[leafc].fields:
                if f.card in ("repeated", "map") or f.elem.kind == "msg":
                    continue
                for state, av in [("default", field_default_av(f))] + [("nondefault", a) for a in elem_nondefault_avs(schema, f.elem)[:1]]:
                    out.append(({"schema": sref, "class": ci, "sets": [[path, f.name, av]]},
                                {"field": "/".join(path + [f.name]), "state": state, "way": f"lazy-path-{len(path)}"}))
    return out


def random_history(schema, sref, rng):
    ci = rng.randrange(len(schema.classes))
    c = schema.classes[ci]
    H = {"schema": sref, "class": ci, "kwargs": {}, "sets": []}
    p = rng.choice([0.2, 0.5, 0.8])
    for f in c.fields:
        if rng.random() >= p:
            continue
        av = field_default_av(f) if rng.random() < 0.35 else gen_field_av(schema, f, rng, 0)
        if rng.random() < 0.5:
            H["kwargs"][f.name] = av
        else:
            H["sets"].append([[], f.name, av])
    rng.shuffle(H["sets"])
    paths = message_paths(schema, ci, 3)
    if paths and rng.random() < 0.3:
        for _ in range(rng.choice([1, 1, 2])):
            path, leafc = rng.choice(paths)
            lf = [f for f in schema.classes[leafc].fields if f.card not in ("repeated", "map")]
            if lf:
                f = rng.choice(lf)
                av = field_default_av(f) if rng.random() < 0.5 else gen_field_av(schema, f, rng, 2)
                H["sets"].append([path, f.name, av])
    if rng.random() < 0.3:
        H["parse"] = presence_stream(schema, ci, rng).hex()
    return H


def oneof_pair_histories(schema, sref):
    """from_dict of a mapping that gives TWO members of one oneof group, both orders, both forms, default values:
    the class form keeps the last member in DECLARATION order (the constructor), the instance form the last in DICT order
    (setattr); the winner is emitted even with its default, the other not at all
    (C06_explicit_emit_from_dict / C06_explicit_emit_from_dict_inst).  Returns (history, winner name, loser name)."""
    out = []
    for ci, c in enumerate(schema.classes):
        groups = sorted({f.group for f in c.fields if f.group is not None})
        for g in groups:
            mem = [f for f in c.fields if f.group == g]
            pairs_ = [(mem[k], mem[k + 1]) for k in range(len(mem) - 1)] + ([(mem[0], mem[-1])] if len(mem) > 2 else [])
            for fa, fb in pairs_:          # fa is declared before fb
                try:
                    ja, jb = field_json(schema, fa, field_default_av(fa)), field_json(schema, fb, field_default_av(fb))
                except NoJson:
                    continue
                for first, second in ((fa, fb), (fb, fa)):
                    d = {first.name: ja if first is fa else jb, second.name: jb if second is fb else ja}
                    for form in ("class", "instance"):
                        win = fb if form == "class" else second
                        lose = fa if win is fb else fb
                        out.append(({"schema": sref, "class": ci, "from_dict": {"form": form, "dict": d}}, win.name, lose.name))
    return out


def random_from_dict_history(schema, sref, rng):
    """the fourth way in combination: a mapping that gives a random subset of the fields (several members of one oneof
    included), default or random values, an occasional explicit None, keys in random order and either casing, through
    the class form or the instance form"""
    import betterproto as bp
    ci = rng.randrange(len(schema.classes))
    c = schema.classes[ci]
    H = {"schema": sref, "class": ci}
    p = rng.choice([0.2, 0.5, 0.8])
    items = []
    for f in c.fields:
        if rng.random() >= p:
            continue
        av = field_default_av(f) if rng.random() < 0.4 else gen_field_av(schema, f, rng, 0)
        try:
            j = field_json(schema, f, av)
        except NoJson:
            continue
        if rng.random() < 0.1:
            j = None
        key = f.name if rng.random() < 0.7 else bp.Casing.CAMEL(f.name).rstrip("_")
        items.append((key, j))
    rng.shuffle(items)
    H["from_dict"] = {"form": rng.choice(["class", "instance"]), "dict": dict(items)}
    return H


CORPUS = os.path.join(lib.VERIF, "corpus", "C06.json")


def compare(ctx, name, pairs, chunk, prelude, imports=IMPORTS):
    """lib.coq_compare; when another check rebuilt shared .vo files between our build and this evaluation
    ("inconsistent assumptions"), rebuild our targets and try again"""
    for attempt in range(3):
        try:
            t0 = time.time()
            res = lib.coq_compare(ctx, name, imports, pairs, chunk=chunk, prelude=prelude)
            ctx.cov.setdefault("coq_evaluation_seconds", {})[name] = round(time.time() - t0, 1)
            return res
        except RuntimeError as e:
            if "inconsistent assumptions" in str(e) and attempt < 2:
                ctx.notes.append(f"{name}: shared .vo files changed under the evaluation (concurrent build); rebuilt and retried")
                lib.build(ctx, ["Properties/C06.vo"] + EXTRA_TARGETS)
                continue
            raise


def in_range_history(H):
    return True


def run(ctx):
    import betterproto as bp
    rng = ctx.rng
    nrand_schemas = 4 if not ctx.thorough else 24
    srefs = ["matrix"] + [["random", ctx.seed, k] for k in range(nrand_schemas)]
    schemas = [schema_of(s) for s in srefs]
    prelude = "\n".join(f"Definition sc{i} : schema := {s.coq()}." for i, s in enumerate(schemas))
    refs = []
    for i, s in enumerate(schemas):
        try:
            refs.append(build_ref(s, f"c06s{ctx.seed}x{i}"))
        except Exception as e:  # noqa
            refs.append(None)
            ctx.notes.append(f"reference classes for schema {i} could not be built: {type(e).__name__}: {e}")
            ctx.count("t3:schema_not_built")

    pairs, meta = [], []
    wf_pairs = [(f"cbool (wf_schema sc{i} && std_builtins_b sc{i})", lib.cbool(True)) for i in range(len(schemas))]

    def fail_oracle(what, H, cell=None, cls=None, **kw):
        H = {k: v for k, v in H.items() if not k.startswith("_")}
        ctx.fail("oracle", what, cls=cls, input={"history": H, "cell": cell, **kw})

    known_cls = {k["cls"] for k in lib.load_known(ctx.pid) if k["status"] == "open"}

    def broken():
        """enough concrete violations are already recorded: stop generating (a badly broken tree can make every
        bytes() call recurse to the interpreter limit, and the replay needs only the first failing inputs)"""
        return sum(1 for f in ctx.failures if f.get("cls") not in known_cls) >= 40

    # ---- the gap ties (1) (2) (3): pairs for Coq and what the implementation / the reference said, evaluated at the end
    from google.protobuf.message import DecodeError
    gap_seen, gap_pairs, gap_meta = set(), [], []
    obj_pairs, obj_meta, merged = [], [], {}   # obj_meta: (si, H, cell, expr, expected observers, disagreements, lazy, bytes hex, guess)
    imp_pairs, imp_meta = [], []

    def clean(H):
        return {k: v for k, v in H.items() if not k.startswith("_")}

    def gap_bytes_case(si, ci, bs, source, reencode=True):
        """(1) one byte string of class ci: spec readers in Coq vs record reader / reference"""
        if refs[si] is None or (si, ci, bs) in gap_seen:
            return
        gap_seen.add((si, ci, bs))
        c = schemas[si].classes[ci]
        try:
            ref = refs[si][c.name].FromString(bs)
        except DecodeError:
            ref = None
        inp = {"schema": schemas[si].describe()[c.name], "class": c.name, "bytes": bs.hex(), "source": source}
        try:
            expr, exp, problems = gap_bytes_pair(schemas[si], si, ci, ref, bs)
        except Exception as e:  # noqa
            ctx.fail("corr", f"the reference comparison of the presence readers raised {type(e).__name__}: {e}", input=inp,
                     theorem_or_correspondence="T3 Model/C06GapDefs.v <-> google.protobuf")
            return
        for p in problems:
            ctx.fail("corr", "broken spec: " + p, input=inp,
                     theorem_or_correspondence="T3 Spec/C06Wire.parse_records <-> google.protobuf")
        gap_pairs.append((expr, exp))
        gap_meta.append(inp)
        ctx.count("gap1:" + ("records+HasField+WhichOneof" if ref is not None else "records_only(reference_rejects)"))
        ctx.count("gap1:source:" + source)
        if ref is not None and reencode:
            try:
                rb = ref.SerializeToString()
            except Exception:  # noqa
                return
            gap_bytes_case(si, ci, rb, "reference re-encoding", reencode=False)

    def gap_object_case(si, H, cell, c, r, b, lazy):
        """(2) the oracle of C06_encode_presence on the real object + the hypotheses / observers on the model;
        (3) the implicit-presence converse on the same bytes"""
        schema = schemas[si]
        probs, tally = implicit_converse(schema, c, r.m, b)
        for k, n in tally.items():
            ctx.count("gap3:" + ":".join(k), n)
        for cls, text in probs:
            fail_oracle(text, H, cell, cls=cls, bytes=b.hex())
        if refs[si] is None:
            return
        try:
            ref = refs[si][c.name].FromString(b)
        except DecodeError:
            ctx.count("gap2:reference_rejects_bytes(m)")
            return
        dis = enc_presence_disagreements(schema, c, r.m, ref)
        if r.expr is None or getattr(r, "pair_idx", None) is None:
            ctx.count("gap2:object_not_modelled")
            for d in dis:
                fail_oracle(d + " (the object has no model: hypotheses of C06_encode_presence not evaluated)", H, cell, bytes=b.hex())
            return
        io, nn, which, im, sow = real_presence(schema, c, r.m)
        names = [f.name for f in c.fields]
        tail = [lib.cl([lib.cbool(v) for v in nn]), lib.cl([(lib.cz(names.index(w)) if w else lib.CN) for w in which]),
                lib.cl([lib.cbool(v) for v in sow])]
        expr = (f"(c06_gap_obj_obs sc{si} [{'; '.join(f'{i}%nat' for i in io)}] [{'; '.join(f'{i}%nat' for i in im)}] r__h)")
        guess = (guess_value_ok(r.m), guess_sow_ok(c, r.m))      # a wrong guess only costs a second evaluation
        obj_pairs.append((expr, lib.cl([lib.cbool(guess[0]), lib.cbool(guess[1])] + tail)))
        obj_meta.append((si, clean(H), cell, r.expr, tail, dis, lazy, b.hex(), guess))
        merged[r.pair_idx] = len(obj_pairs) - 1

    def do_history(si, H, cell=None):
        """run, compare with the model, apply the oracle; returns the Ran"""
        if broken():
            ctx.count("skipped_after_many_failures")
            return None
        schema = schemas[si]
        H["_si"] = si
        ci = H["class"]
        c = schema.classes[ci]
        r = run_history(schema, H)
        if r.error and r.error.startswith("unmodellable"):
            ctx.count("unmodellable")
            return r
        ctx.cov["evaluations"] += 1
        way = cell["way"] if cell else "random"
        ctx.count("way:" + way.split("-")[0] if way.startswith("lazy") else "way:" + way)
        # presence reports are taken before anything reads the object (Message.is_set of a plain field flips on a read: K4)
        reports = {f.name: reported(schema, c, f, r.m) for f in c.fields} if r.m is not None else {}
        if r.model is not None:
            pairs.append((r.model, observe(schema, H, r)))
            meta.append((si, H, cell))
            r.pair_idx = len(pairs) - 1
        if r.m is None:
            ctx.count("history_raises")
            if cell is not None:
                fail_oracle(f"the cell raised {r.error}", H, cell)
            return r
        m = r.m
        lazy = r.lazy_depth >= 2
        # ---- the emission clauses on the final object
        try:
            b = bytes(m)
        except Exception as e:  # noqa  (every generated value is in range: bytes() has no reason to raise)
            ctx.count("unencodable")
            fail_oracle(f"bytes(m) raises {type(e).__name__}: {str(e)[:200]}", H, cell)
            return r
        if b:
            ctx.seen_nontrivial((si, ci, json.dumps({k: v for k, v in H.items() if not k.startswith("_")}, sort_keys=True, default=repr)))
        for cls, text in check_object(schema, ci, m, b):
            if cls == "submsg-flag":
                cls = "lazy-path" if lazy else None
            fail_oracle(text, H, cell, cls=cls, bytes=b.hex())
        if len(m) != len(b):
            fail_oracle(f"len(m) = {len(m)} but bytes(m) has {len(b)} bytes", H, cell)
        # ---- the single-field cell expectations
        if cell is not None and not way.startswith("lazy"):
            f = fld(c, cell["field"])
            ctx.count(f"cell:{presence_class(f)}:{cell['state']}:{way}")
            try:
                recs = [r_ for r_ in wiregen.read_records(b) if r_[0] == f.number]
            except wiregen.WireError:
                recs = []
            want_n, want_rep = expected_cell(schema, f, cell["state"], way)
            if (want_n is None and not recs) or (want_n is not None and len(recs) != want_n):
                fail_oracle(f"{presence_class(f)} field {f.name} {cell['state']} via {way}: {len(recs)} record(s) with its number in "
                            f"{b.hex()!r}, expected {'at least one' if want_n is None else want_n}", H, cell)
            other = [r_ for r_ in wiregen.read_records(b) if r_[0] != f.number] if recs is not None else []
            if other:
                fail_oracle(f"setting only {f.name} emitted records of other fields: {b.hex()}", H, cell)
            got = reports[f.name]
            if want_rep is not None and got is not None and got != want_rep:
                fail_oracle(f"{presence_class(f)} field {f.name} {cell['state']} via {way}: reported set = {got}, expected {want_rep}", H, cell)
            if cell["state"] == "never" and f.group is None:
                v = getattr(m, f.name)
                d = py_default(schema, f)
                okv = (is_default_message(schema, f.elem.ref, v) if d == "default-message" else v == d)
                if not okv:
                    fail_oracle(f"never-set field {f.name} reads {v!r}, proto3 default is {d!r}", H, cell)
            if cell["state"] == "never" and b != b"":
                fail_oracle(f"nothing was set but bytes(m) = {b.hex()}", H, cell)
        if cell is not None and way.startswith("lazy"):
            ctx.count(f"cell:lazy:{cell['state']}:depth{r.lazy_depth}")
        # ---- T3 on what was emitted
        if refs[si] is not None:
            t3_compare(ctx, schema, ci, refs[si], b, "bytes(m) of a history")
            if H.get("parse"):
                t3_compare(ctx, schema, ci, refs[si], bytes.fromhex(H["parse"]), "spec-written records")
        # ---- the gap ties
        try:
            gap_object_case(si, H, cell, c, r, b, lazy)
            gap_bytes_case(si, ci, b, "bytes(m)")
            if H.get("parse"):
                gap_bytes_case(si, ci, bytes.fromhex(H["parse"]), "spec-written records")
        except Exception as e:  # noqa
            fail_oracle(f"the presence comparison with the reference raised {type(e).__name__}: {str(e)[:200]}", H, cell)
        return r

    # ------------------------------------------------------------------ regression corpus first
    if os.path.exists(CORPUS):
        for H in json.load(open(CORPUS))["histories"]:
            if H["schema"] == "matrix":
                do_history(0, dict(H), H.get("cell"))
                ctx.count("corpus_inputs")

    # ------------------------------------------------------------------ fresh objects: every class of every schema
    for si, s in enumerate(schemas):
        for ci, c in enumerate(s.classes):
            ctx.cov["evaluations"] += 1
            try:
                probs = check_fresh(s, ci)
            except Exception as e:  # noqa
                probs = [f"fresh-object check raised {type(e).__name__}: {e}"]
            for p in probs:
                ctx.fail("oracle", p, cls=None, input={"history": {"schema": srefs[si], "class": ci}, "describe": s.describe()[c.name]})
            ctx.count("fresh_classes")
            # model: enc (new) = [] and reads = proto3_default of the independent spec
            pairs.append((f"(let o := new sc{si} {NBUILTIN + ci}%nat in CL [cv_bytes_res (enc_obj sc{si} o); "
                          f"CL (map (fun i => cv_pv_res (read sc{si} o i)) (seq 0 (nfields sc{si} o)))])",
                          f"(CL [CB []; CL (map (fun f => cv_pv_res (proto3_default sc{si} f)) (cfields (get_class sc{si} {NBUILTIN + ci}%nat)))])"))
            meta.append((si, {"schema": srefs[si], "class": ci, "fresh": True}, None))

    # ------------------------------------------------------------------ the exhaustive matrix
    for H, cell in matrix_histories(schemas[0], "matrix"):
        do_history(0, H, cell)
    for H, cell in lazy_histories(schemas[0], "matrix"):
        do_history(0, H, cell)
    # the same systematic cells on the random schemas' fields (cheap, catches kind-specific edits outside the matrix numbering)
    for si in range(1, len(schemas)):
        cells = matrix_histories(schemas[si], srefs[si])
        rng.shuffle(cells)
        for H, cell in cells[:150 if not ctx.thorough else 600]:
            do_history(si, H, cell)
        lz = lazy_histories(schemas[si], srefs[si])
        rng.shuffle(lz)
        for H, cell in lz[:20]:
            do_history(si, H, cell)

    # ------------------------------------------------------------------ (3) the implicit-presence sweep: every implicit-presence
    # field of every schema x {default, representative / boundary non-default values, -0.0, denormal, infinity} x {constructor,
    # assignment}: the history goes through do_history (model, emission clauses, reference, the record-number converse) and,
    # in addition, the vocabulary of C06_implicit_emit_iff_partial is evaluated on the value in Coq and compared with the
    # implementation (is_default <-> `value == m._get_field_default(name)`, here <-> bytes(m)), and the reference's own
    # encoding of the same value says whether a record of the field is there
    for si, schema in enumerate(schemas):
        for ci, c in enumerate(schema.classes):
            for fi, f in enumerate(c.fields):
                pc = presence_class(f)
                if pc not in ("implicit", "valuemsg") or broken():
                    continue
                for av in sweep_values(schema, f):
                    for way in ("ctor", "setattr"):
                        H = {"schema": srefs[si], "class": ci}
                        if way == "ctor":
                            H["kwargs"] = {f.name: av}
                        else:
                            H["sets"] = [[[], f.name, av]]
                        r = do_history(si, H, None)
                        if r is None or r.m is None:
                            if r is not None and not (r.error or "").startswith("unmodellable"):
                                fail_oracle(f"setting the {pc} field {f.name} raised {r.error}", H, None)
                            continue
                        kind = f.elem.pt if f.elem.kind == "scalar" else f.elem.kind
                        try:
                            raw = raw_of(r.m, f.name)
                            b = bytes(r.m)
                            own_default = bool(raw == r.m._get_field_default(f.name))
                            lit = msggen.pv_literal(schema, raw)
                        except Exception as e:  # noqa
                            ctx.count("gap3:sweep_not_evaluated:" + type(e).__name__)
                            continue
                        state = "default" if proto_default_value(f, raw) else ("neg-zero" if is_neg_zero(raw) else "non-default")
                        ctx.count(f"gap3:sweep:{kind}:{state}:{'absent' if b == b'' else 'present'}")
                        imp_pairs.append((f"(c06_gap_implicit sc{si} {NBUILTIN + ci}%nat {fi}%nat {lit})",
                                          lib.cl([lib.cbool(own_default), lib.cb(b), lib.cbool(exact_kind_py(f))])))
                        imp_meta.append({"history": clean(H), "field": f.name, "value": repr(raw), "bytes": b.hex()})
                        # the reference's own encoding of the same value
                        if refs[si] is not None and way == "ctor":
                            try:
                                ro = refs[si][c.name]()
                                ref_set(ro, f, schema, av)
                                rb = ro.SerializeToString()
                                rn = len([x for x in wiregen.read_records(rb) if x[0] == f.number])
                                bn = len([x for x in wiregen.read_records(b) if x[0] == f.number])
                            except Exception as e:  # noqa
                                ctx.count("gap3:reference_encoding_not_built:" + type(e).__name__)
                                continue
                            gap_bytes_case(si, ci, rb, "reference encoding of a set field")
                            ctx.count(f"gap3:reference:{pc}:{state}:ref={'present' if rn else 'absent'},bp={'present' if bn else 'absent'}")
                            if pc == "implicit" and (rn > 0) != (bn > 0) and not (is_neg_zero(raw) and bn == 0):
                                # (-0.0 skipped is reported once, by implicit_converse, under the K14 label)
                                fail_oracle(f"implicit field {f.name} = {raw!r}: the reference's encoding has {rn} record(s) of the field, "
                                            f"bytes(m) has {bn}", H, None, bytes=b.hex(), reference_bytes=rb.hex())

    # ------------------------------------------------------------------ random combinations
    nrand = 500 if not ctx.thorough else 6000
    for k in range(nrand):
        if broken():
            break
        si = 0 if rng.random() < 0.5 else rng.randrange(len(schemas))
        try:
            H = random_history(schemas[si], srefs[si], rng)
        except Exception as e:  # noqa
            ctx.count("generator_error:" + type(e).__name__)
            continue
        do_history(si, H, None)
    # two members of one oneof group in one mapping, systematically (matrix schema: all; random schemas: all they have)
    for si in range(len(schemas)):
        for H, win, lose in oneof_pair_histories(schemas[si], srefs[si]):
            r = do_history(si, H, None)
            if r is None or r.m is None:
                continue
            ctx.count("from_dict_oneof_pair:" + H["from_dict"]["form"])
            c = schemas[si].classes[H["class"]]
            fw, fl = fld(c, win), fld(c, lose)
            sel = bp.which_one_of(r.m, f"g{fw.group}")[0]
            try:
                nums = [r_[0] for r_ in wiregen.read_records(bytes(r.m))]
            except Exception:  # noqa
                nums = None
            if sel != win or nums != [fw.number]:
                fail_oracle(f"from_dict ({H['from_dict']['form']} form) of a mapping giving the oneof members {list(H['from_dict']['dict'])}: "
                            f"which_one_of = {sel!r}, record numbers {nums}; expected {win!r} selected and exactly one record, number {fw.number}",
                            H, None)
    for k in range(250 if not ctx.thorough else 3000):
        if broken():
            break
        si = 0 if rng.random() < 0.5 else rng.randrange(len(schemas))
        try:
            H = random_from_dict_history(schemas[si], srefs[si], rng)
        except Exception as e:  # noqa
            ctx.count("generator_error:" + type(e).__name__)
            continue
        r = do_history(si, H, None)
        if r is not None and r.m is not None:
            ctx.count("from_dict_combination:" + H["from_dict"]["form"])
        elif r is not None and r.error:
            ctx.count("from_dict_combination_raises:" + r.error.split(":")[0])

    # ------------------------------------------------------------------ decoder streams aimed at presence (model + T3 + spec twin)
    nstream = 500 if not ctx.thorough else 6000
    spec_pairs = []
    for k in range(nstream):
        if broken():
            break
        si = 0 if rng.random() < 0.5 else rng.randrange(len(schemas))
        s = schemas[si]
        ci = rng.randrange(len(s.classes))
        c = s.classes[ci]
        try:
            bs = presence_stream(s, ci, rng)
        except Exception as e:  # noqa
            ctx.count("generator_error:" + type(e).__name__)
            continue
        H = {"schema": srefs[si], "class": ci, "parse": bs.hex()}
        r = do_history(si, H, None)
        ctx.count("presence_streams")
        if bs:
            ctx.seen_nontrivial((si, ci, bs))
        # the Coq spec functions on the same bytes against their Python twin
        if k < (150 if not ctx.thorough else 1500):
            try:
                recs = wiregen.read_records(bs)
            except wiregen.WireError:
                recs = None
            if recs is not None and all(r_[1] != 3 for r_ in recs):
                exp = lib.cl([lib.cl([lib.cbool(has_record(f, recs)) for f in c.fields]),
                              lib.cl([(lib.cz([f.name for f in c.fields].index(last_member(c, g, recs))) if last_member(c, g, recs) else lib.CN)
                                      for g in range(c.ngroups)])])
                spec_pairs.append((f"(c06_spec_obs sc{si} {NBUILTIN + ci}%nat {lib.coq_bytes(bs)})", exp))

    # ------------------------------------------------------------------ evaluate the model
    def spread(n, lo=30, hi=400):
        """chunk size that gives every core a file"""
        return max(lo, min(hi, -(-n // lib.JOBS)))

    # schema hypotheses: wf_schema / std_builtins_b (decode theorems), c01_schema_ok (C06_encode_presence)
    nsch = len(schemas)
    bad = compare(ctx, "c06wf", wf_pairs + [(f"c06_gap_schema_hyps sc{i}", lib.cbool(True)) for i in range(nsch)], 4, prelude, GAP_IMPORTS)
    for i in [i for i in bad if i < nsch]:
        ctx.fail("corr", "a generated schema does not satisfy wf_schema / std_builtins (theorem hypotheses not met by the generator)",
                 input={"schema": srefs[i]}, no_input=True, theorem_or_correspondence="wf_schema on generated schemas")
    sch_bad = {i - nsch for i in bad if i >= nsch}
    for i in sorted(sch_bad):
        ctx.count("gap2:schema_outside_c01_schema_ok")
        ctx.notes.append(f"schema {srefs[i]} does not satisfy c01_schema_ok && std_builtins_b: its objects are outside C06_encode_presence")
    # the histories.  Where the object also takes part in the oracle of C06_encode_presence, ONE evaluation of the history
    # feeds both c06_obs (T2) and c06_gap_obj_obs (the two hypotheses as guessed + the three observers): `merged`
    # maps the pair index to the index in obj_meta.  A pair that does not match is split in a second evaluation.
    run_pairs = list(pairs)
    for k, j in merged.items():
        si = meta[k][0]
        run_pairs[k] = (f"(let r__h := {obj_meta[j][3]} in CL [c06_obs sc{si} r__h; {obj_pairs[j][0]}])",
                        lib.cl([pairs[k][1], obj_pairs[j][1]]))
    bad = compare(ctx, "c06", run_pairs, 90, prelude, GAP_IMPORTS)
    t2_bad = [i for i in bad if i not in merged]
    hyp = {j: obj_meta[j][8] for j in range(len(obj_pairs))}      # the guess is confirmed by Coq unless the pair is in `bad`
    obs_bad = set()
    split = [i for i in bad if i in merged]
    for i in split[200:]:                                          # a badly broken tree: the first 200 are split, that is enough
        hyp[merged[i]] = (None, None)
        t2_bad.append(i)
        ctx.count("gap2:mismatching_pairs_not_split")
    split = split[:200]
    if split:
        second, owner = [], []
        for i in split:
            j = merged[i]
            si, expr, tail = obj_meta[j][0], obj_meta[j][3], obj_meta[j][4]
            second.append(pairs[i])
            owner.append((i, "t2", None))
            gexpr = obj_pairs[j][0].replace("r__h", expr)
            for v in ((1, 1), (1, 0), (0, 1), (0, 0)):
                second.append((f"(c06_gap_hyps sc{si} {expr})", lib.cl([lib.cbool(v[0]), lib.cbool(v[1])])))
                owner.append((i, "hyp", v))
                second.append((gexpr, lib.cl([lib.cbool(v[0]), lib.cbool(v[1])] + tail)))
                owner.append((i, "obs", v))
        bad2 = set(compare(ctx, "c06split", second, spread(len(second)), prelude, GAP_IMPORTS))
        agree = set()
        for i in split:
            hyp[merged[i]] = (None, None)          # stays so when the model of the history is an error
        for k, (i, what, v) in enumerate(owner):
            if what == "t2":
                if k in bad2:
                    t2_bad.append(i)
            elif k not in bad2:
                if what == "hyp":
                    hyp[merged[i]] = (bool(v[0]), bool(v[1]))
                else:
                    agree.add(i)
        obs_bad = {merged[i] for i in split if i not in agree}
        ctx.count("gap2:hypothesis_guess_corrected_by_coq", len([i for i in split if i in agree and i not in t2_bad]))
    for i in sorted(t2_bad)[:20]:
        si, H, cell = meta[i]
        H = {k: v for k, v in H.items() if not k.startswith("_")}
        ctx.fail("corr", "model (construct / assign_path / parse_into / enc_obj / is_set / read) and implementation disagree",
                 input={"history": H, "cell": cell, "model_expr": pairs[i][0][:3000], "implementation": pairs[i][1][:3000]},
                 theorem_or_correspondence="T2 Model/Object.v Encode.v Decode.v C06Obs.v <-> betterproto")
    bad = compare(ctx, "c06spec", spec_pairs, 60, prelude)
    for i in bad[:10]:
        ctx.fail("corr", "Spec/C06Wire.v (parse_records / has_record / last_member) disagrees with its Python twin",
                 input={"model_expr": spec_pairs[i][0][:2000], "twin": spec_pairs[i][1][:2000]},
                 theorem_or_correspondence="T3 Spec/C06Wire.v <-> harness twin <-> google.protobuf")
    # ------------------------------------------------------------------ the gap ties
    # (2) observers of the model vs the real object; the oracle of C06_encode_presence with the hypotheses Coq computed
    for j in sorted(obs_bad)[:10]:
        si, H, cell, expr, tail, dis, lazy, bhex, _ = obj_meta[j]
        ctx.fail("corr", "value_not_none / which_one_of / child_on_wire of the model (the observers C06_encode_presence speaks about) "
                         "disagree with `is not None` / which_one_of / serialized_on_wire of the real object",
                 input={"history": H, "cell": cell, "model_expr": obj_pairs[j][0].replace("r__h", expr)[:3000],
                        "implementation": obj_pairs[j][1][:1000]},
                 theorem_or_correspondence="T2 Model/C06Obs.v value_not_none / child_on_wire, Model/Object.v which_one_of <-> betterproto")
    for j, (si, H, cell, expr, tail, dis, lazy, bhex, _) in enumerate(obj_meta):
        vo, so = hyp[j]
        inside = vo is True and so is True and si not in sch_bad
        ctx.count("gap2:objects:" + ("inside_hypotheses" if inside else
                                     f"outside(c01_value_ok={vo},sow_ok={so})" if si not in sch_bad else "outside(schema)"))
        for d in dis:
            if inside:
                what = ("C06_encode_presence contradicted on the implementation (c01_value_ok and sow_ok evaluate to true on the "
                        "model of this object): " + d)
                cls = None
            else:
                what = f"outside the hypotheses of C06_encode_presence (c01_value_ok = {vo}, sow_ok = {so}): " + d
                cls = "lazy-path" if lazy else None
            ctx.fail("oracle", what, cls=cls, input={"history": H, "cell": cell, "bytes": bhex})
    ctx.count("gap2:oracle_comparisons", len(obj_meta))
    # (1) the specification-side readers on every distinct byte string against the record reader and the reference;
    # (3) the vocabulary of the implicit-presence theorems on the sweep values (same evaluation run)
    ng = len(gap_pairs)
    bad = compare(ctx, "c06gap", gap_pairs + imp_pairs, spread(ng + len(imp_pairs)), prelude, GAP_IMPORTS)
    for i in [i for i in bad if i < ng][:10]:
        ctx.fail("corr", "has_field_bytes / which_oneof_bytes / parse_records (Model/C06GapDefs.v, Spec/C06Wire.v) disagree with "
                         "google.protobuf HasField / WhichOneof (or the record list with the independent reader) on the same bytes",
                 input={**gap_meta[i], "model_expr": gap_pairs[i][0][:2000], "reference": gap_pairs[i][1][:2000]},
                 theorem_or_correspondence="T3 Model/C06GapDefs.v has_field_bytes / which_oneof_bytes <-> google.protobuf HasField / WhichOneof")
    ctx.count("gap1:distinct_byte_strings_compared", ng)
    for i in [i - ng for i in bad if i >= ng][:10]:
        ctx.fail("corr", "is_default / here / implicit_exact_kind on a value of an implicit-presence field disagree with the "
                         "implementation (value == _get_field_default, bytes(m) of the one-field object)",
                 input={**imp_meta[i], "model_expr": imp_pairs[i][0][:1500], "implementation": imp_pairs[i][1][:1500]},
                 theorem_or_correspondence="T2 Model/Eq.v is_default, Model/C06Obs.v here <-> betterproto Message.dump")
    ctx.count("gap3:sweep_values_compared_with_model", len(imp_pairs))
    ctx.cov["disagreements_checked"] = len(pairs) + len(spec_pairs) + len(wf_pairs) + nsch + len(gap_pairs) + len(obj_pairs) + len(imp_pairs)
    for k in (3, len(pairs) // 3, len(pairs) // 2, len(pairs) - 1):
        if 0 <= k < len(pairs):
            ctx.sample({"history": {a: b for a, b in meta[k][1].items() if not a.startswith("_")}, "cell": meta[k][2],
                        "implementation": pairs[k][1][:300]})
    ctx.notes.append("K4 (DESIGN section 5): Message.is_set of an implicit-presence field flips to True after a mere read; proto3 gives such a "
                     "field no presence, so C06 speaks about explicit-presence fields only (C14 owns observer purity). The correspondence still "
                     "compares the is_set vector of every field with the model.")
    ctx.notes.append("-0.0 in a float/double field compares equal to the default 0.0 and is therefore not emitted by an implicit-presence "
                     "field (the reference emits it); this follows the code's `==` (the theorems' is_default agrees with it: compared in the "
                     "sweep) and is reported as known finding K14, class neg-zero-skipped, by the record-number converse of stage (3).")
    ctx.notes.append("Timestamp / Duration fields (outside C06_implicit_emit_iff_partial): observed in every history and in the sweep - the "
                     "epoch / zero span is never emitted, every other value gives exactly one record with the field's number (counts "
                     "gap3:valuemsg:*); the reference, which keeps presence for them, emits an explicitly set epoch / zero span as an "
                     "empty record (counts gap3:reference:valuemsg:default:*): not a failure of C06, betterproto has no presence to keep.")
    ctx.notes.append("C06_encode_presence is stated under c01_value_ok && sow_ok: objects that keep unknown bytes (no_unknown) or a displaced "
                     "oneof member's value (oneof_clean) are outside it; the reference comparison of stage (2) is made for them all the same "
                     "and a disagreement is reported as an oracle failure that says so (counts gap2:objects:*).")
    ctx.notes.append("plain Timestamp/Duration fields are mapped to datetime/timedelta values: betterproto keeps no presence for them beyond "
                     "Message.is_set right after decoding (which T3 compares with HasField); an epoch / zero value is not re-emitted.")
    for s in schemas:
        s.dispose()
    schema_of.__defaults__[0].clear()


def finish(ctx):
    if os.environ.get("VERIF_DUMP_FAILURES"):      # self-test aid: every distinct failure text (first 90 characters) with its count
        tally = {}
        for f in ctx.failures:
            k = f"{f['kind']} | {f.get('cls')} | {f['what'][:90]}"
            tally[k] = tally.get(k, 0) + 1
        with open(os.environ["VERIF_DUMP_FAILURES"], "w") as fh:
            json.dump(tally, fh, indent=1)
    return lib.finish(
        ctx, "proof",
        "Coq theorems over the Gallina mirror of Message.__post_init__/__getattribute__/__setattr__/dump/load + an independent record-level "
        "specification of presence; executable correspondence (vm_compute) with the implementation; reference comparison (google.protobuf)",
        ASSUMPTIONS, TRUSTED, RULE,
        extra_cov={"matrix_cells_enumerated": sum(v for k, v in ctx.dist.items() if k.startswith("cell:")),
                   "gap_ties": {"(1) distinct byte strings: spec readers in Coq vs record reader + HasField / WhichOneof":
                                    ctx.dist.get("gap1:distinct_byte_strings_compared", 0),
                                "(2) objects compared with the reference on bytes(m)": ctx.dist.get("gap2:oracle_comparisons", 0),
                                "(2) of them inside c01_value_ok && sow_ok (evaluated in Coq)": ctx.dist.get("gap2:objects:inside_hypotheses", 0),
                                "(3) implicit-field observations on histories": sum(v for k, v in ctx.dist.items()
                                                                                    if k.startswith("gap3:implicit:") or k.startswith("gap3:valuemsg:")),
                                "(3) sweep values evaluated on is_default / here": ctx.dist.get("gap3:sweep_values_compared_with_model", 0)},
                   "explanation": "theorems are unbounded (all well-formed schemas, all values, all byte strings of complete records); the "
                                  "kind x state x way matrix is enumerated exhaustively every run, combinations and decoder streams are sampled"})


def replay(ctx, obj):
    inp = obj.get("input") or {}
    H = inp.get("history")
    print(json.dumps({k: obj.get(k) for k in ("kind", "what", "cls")}, indent=1, default=repr))
    if not H or "fresh" in H:
        print(json.dumps(inp, indent=1, default=repr)[:4000])
        return 0
    schema = schema_of(H["schema"])
    H = dict(H)
    r = run_history(schema, H)
    print("history:", json.dumps({k: v for k, v in H.items() if not k.startswith('_')}, default=repr))
    if r.m is None:
        print("the history raises:", r.error)
        return 1
    b = bytes(r.m)
    print("bytes(m) =", b.hex(), " repr:", repr(r.m)[:500])
    probs = check_object(schema, H["class"], r.m, b)
    c = schema.classes[H["class"]]
    try:
        probs = probs + implicit_converse(schema, c, r.m, b)[0]
        from google.protobuf.message import DecodeError
        try:
            ref = build_ref(schema, "c06replay")[c.name].FromString(b)
            probs = probs + [(None, d) for d in enc_presence_disagreements(schema, c, r.m, ref)]
        except DecodeError:
            print("the reference rejects bytes(m)")
    except Exception as e:  # noqa
        print("reference comparison not available:", type(e).__name__, e)
    for cls, text in probs:
        print("still failing:", text)
    if not probs:
        print("emission clauses hold on this tree (a correspondence or cell failure needs the full check)")
    return 1 if probs else 0
