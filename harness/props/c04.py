"""C04 — dict / JSON round trip: correspondence (T2) of coq/Model/Json.v with Message.to_dict / from_dict /
to_json / from_json, and the oracle (the property itself evaluated on the implementation)."""
import copy
import json
import math
import os
import time
from datetime import timedelta

from .. import jsongen, lib, msggen
from ..lib import cl, ce, cbool, CN

IMPORTS = ("Model.Types Model.Object Model.Eq Model.Encode Model.Canon Model.WellFormed Model.Json Proofs.C04Def gen.Tables")
EXTRA_TARGETS = ["Model/Canon.vo", "Model/Json.vo", "Proofs/C04Def.vo", "Model/C04RepWrap.vo", "Proofs/C04InclDef.vo"]
# stage 2 (include_default_values=True, repeated wrappers): the definitions the second part of Properties/C04.v is stated with
IMPORTS_INCL = IMPORTS + " Model.C04RepWrap Proofs.C04InclDef"

TRUSTED = [
    "Coq 8.16.1 kernel and vm_compute (no native_compute); full .vo build via coq_makefile",
    "hand-written model coq/Model/Json.v (+ Object, Eq, Encode, Casing, Enum, Time, Float) tied to /repo by executable correspondence "
    "(this harness): to_dict (both casings, include_default_values False/True), from_dict (class form, instance form on a fresh and on "
    "an existing object), the text path json.loads(json.dumps(.)) and from_json(to_json(.)) are evaluated by vm_compute on snapshots of "
    "real Message objects and compared with the implementation's outputs and with snapshots of the objects it builds",
    "oracles inside the model, validated by this correspondence only: float repr/float() (identity on finite doubles), JSON string escapes, "
    "isoformat / dateutil.isoparse calendar (executable civil-from-days; the inverse is PROVED for years 1..9999: C04_calendar_inverse, one "
    "400-year era by vm_compute sweep + periodicity), base64 (concrete model, inverse PROVED: C04_base64_inverse), "
    "Decimal literal reading of Duration strings (Model/Time.v, C15)",
    "imported lemmas of other properties: Proofs/TimeP.v (C15: decimal notation, Duration string round trip), Proofs/EnumP.v (C20: enum "
    "JSON element round trip), Model/Casing.v field_for_key (C19)",
    "translator harness/gen_tables.py (INT_64_TYPES, JSON_INFINITY/NAN, wrapper table, keyword list)",
    "Python side: harness/msggen.py, harness/jsongen.py (generators, snapshots, JSON literal printers, feature walk)",
]
ASSUMPTIONS = [
    "Python int is Z; str is its UTF-8 bytes (no lone surrogates); float is its binary64 pattern; aware datetimes are microseconds since the epoch",
    "object identity / aliasing is not modelled (from_dict stores the caller's list and dict objects in the message)",
    "the first part of Properties/C04.v is about to_dict(include_default_values=False), the default; include_default_values=True is the "
    "second part: the == half of the round trip under defaults_reach (Cls().to_dict(include_default_values=True) terminates for every unset "
    "plain sub-message: no recursive class is entered; C04_incl_eq_rt, C04_incl_dumps_total), both halves under all_present (every plain "
    "sub-message field outside a oneof holds a present message, at every depth: C04_incl_dict_rt / C04_incl_text_rt); without all_present the "
    "bytes differ (open finding C04-K3, C04_incl_unset_submessage_refuted); both side conditions are evaluated in Coq and compared with a "
    "Python walk on every case of stage 2",
    "hypotheses of C04_dict_rt / C04_text_rt: wf_schema, keys_ok (the keys of a class are distinct and map back, C19), good = in_range "
    "(C01's in-range values) + oneof_ok (a oneof member holds a value iff its group selects it) + dicts_ok (dict keys distinct, a Python "
    "invariant) + json_supported = no unknown fields, no lazily created non-empty intermediates (K12), NaN canonical and not inside "
    "repeated/map; C04_dumps_total needs only wf_schema, in_range, oneof_ok",
    "repeated wrapper fields (repeated google.protobuf.BytesValue ...) are outside the shared WellFormed.wf_schema / in_range: the theorems "
    "C04_repwrap_* and C04_general_* are stated over the extensions wfx_schema / in_rangex / goodx of coq/Model/C04RepWrap.v (conservative: "
    "C04_wfx_extends_wf), which stage 2 evaluates on the wrapper schema of this check and on every other generated schema",
]
RULE = ("messages of the systematic schema (every scalar kind x {plain, optional, repeated, oneof member, map value, map key, wrapper}, "
        "nested/recursive, Timestamp/Duration, enums with aliases/negatives/unnamed numbers) and of random schemas; values from boundary/"
        "typical/out-of-range classes, containers of length 0..5, unknown fields, lazily created intermediates, regression witnesses of every "
        "repaired defect. non-trivial = to_dict() is not {}; distinct = distinct (class, canonical dict)")

CASINGS = ["CAMEL", "SNAKE"]
DBG = int(os.environ.get("C04_DEBUG_CHARS", "6000"))

EQ_CLASSES = ["lazy-intermediate", "nan-in-container"]
BYTES_CLASSES = ["lazy-intermediate", "unknown-fields", "nan-payload"]


def snap(schema, f):
    """canonical cv of the snapshot of the object f() builds, or CE EOther"""
    try:
        r = f()
        return f"(cv_of_obj {msggen.obj_literal(schema, r)})"
    except msggen.Unmodellable:
        raise
    except RecursionError:
        raise
    except Exception:  # noqa
        return ce("EOther")


def nan_payload(schema, m):
    import struct
    import betterproto as bp
    for f in dataclass_fields(m):
        v = object.__getattribute__(m, f)
        items = v if isinstance(v, list) else list(v.values()) if isinstance(v, dict) else [v]
        for x in items:
            if isinstance(x, float) and math.isnan(x) and struct.unpack("<Q", struct.pack("<d", x))[0] != jsongen.CANON_NAN:
                return True
            if isinstance(x, bp.Message) and nan_payload(schema, x):
                return True
    return False


def dataclass_fields(m):
    import dataclasses
    return [f.name for f in dataclasses.fields(m)]


def regression_messages(s):
    """witnesses of the defects repaired by fixes/c04-*.patch and by the earlier fix: commits (matrix schema)"""
    import betterproto as bp
    C = {c.name: c.py for c in s.classes}
    names = {f.name: f for c in s.classes for f in c.fields}

    def fn(prefix, kind=None):
        return [n for n in names if n.startswith(prefix) and (kind is None or names[n].elem.kind == kind)][0]
    E = s.pyenums[0]
    KMap, KWrapper, KOptional, KPlain, Inner, KOneof, KRep = (C["KMap"], C["KWrapper"], C["KOptional"], C["KPlain"], C["Inner"],
                                                              C["KOneof"], C["KRepeated"])
    out = [
        ("map-bytes", KMap(**{fn("m_string_bytes"): {"a": b"xy", "": b""}})),
        ("map-int-key", KMap(**{fn("m_int32"): {1: 1.5, -7: 0.0}})),
        ("map-bool-key", KMap(**{fn("m_bool"): {True: 3, False: -1}})),
        ("map-int64-key-value", KMap(**{fn("m_uint64_int64"): {2 ** 64 - 1: -2 ** 63}})),
        ("map-enum", KMap(**{fn("m_string_enum"): {"a": E(1), "b": E.try_value(12345), "c": E(-1)}})),
        ("map-inf", KMap(**{fn("m_string_double"): {"a": float("inf"), "b": float("-inf")}})),
        # both zeros in one map, +0.0 first: the sign of a zero that IS written must survive (seeded change C04-4: a memoised
        # dump keyed by ==, under which 0.0, -0.0 and 0 are one key)
        ("map-both-zeros", KMap(**{fn("m_string_double"): {"p": 0.0, "n": -0.0, "q": 0.0}})),
        ("repeated-both-zeros", KRep(**{fn("r_double"): [0.0, -0.0, 0.0, -0.0], fn("r_float"): [0.0, -0.0]})),
        ("map-msg", KMap(**{fn("m_string_message", "msg"): {"a": Inner(x=1), "b": Inner()}})),
        ("map-timestamp", KMap(**{fn("m_string_message", "datetime"): {"a": msggen.EPOCH, "b": msggen.EPOCH + timedelta(microseconds=-1)}})),
        ("map-duration", KMap(**{fn("m_string_message", "timedelta"): {"a": timedelta(1), "b": timedelta(microseconds=1)}})),
        ("wrapper-bytes", KWrapper(w_bytes=b"ab")),
        ("wrapper-int64", KWrapper(w_int64=2 ** 40, w_uint64=2 ** 64 - 1)),
        ("wrapper-inf", KWrapper(w_double=float("inf"), w_float=float("-inf"))),
        ("wrapper-defaults", KWrapper(w_double=0.0, w_string="", w_bool=False, w_bytes=b"", w_int64=0)),
        ("optional-empty-message", KOptional(**{fn("o_message", "msg"): Inner()})),
        ("optional-epoch", KOptional(**{fn("o_message", "datetime"): msggen.EPOCH})),
        ("optional-zero-duration", KOptional(**{fn("o_message", "timedelta"): timedelta(0)})),
        ("optional-zero-scalars", KOptional(o_int32_2=0, o_string_13="", o_bytes_14=b"", o_enum_15=E(0), o_double_0=0.0, o_int64_3=0)),
        ("enum-unnamed", KPlain(**{fn("p_enum"): E.try_value(5)})),
        ("enum-unnamed-repeated", KRep(**{fn("r_enum"): [E.try_value(5), E(1), E(-1), E.try_value(-2147483648)]})),
        ("duration-1us", KPlain(**{fn("p_message", "timedelta"): timedelta(microseconds=1)})),
        ("duration-long", KPlain(**{fn("p_message", "timedelta"): timedelta(microseconds=-(2 ** 53) - 1)})),
        # every fraction class of the Timestamp / Duration strings (0, 3, 6 digits; leading zeros), range ends, pre-epoch
        ("timestamp-fractions", KRep(**{fn("r_message", "datetime"): [msggen.EPOCH + timedelta(microseconds=u) for u in
                                        (0, 5000, 50000, 500000, 5, 50, 500, 5005, 999999, -1, -5000, 1000000, 253402300799999999, -62135596800000000)]})),
        ("duration-fractions", KRep(**{fn("r_message", "timedelta"): [timedelta(microseconds=u) for u in
                                       (0, 5000, 50000, 500000, 5, 50, 500, 5005, 999999, -1, -5000, -1000000, 1000000, 315576000000 * 10 ** 6, -315576000000 * 10 ** 6)]})),
        ("oneof-default-member", KOneof(**{fn("u_int32"): 0})),
        ("oneof-empty-message", KOneof(e=C["Empty"]())),
    ]
    # a PLAIN (implicit-presence) sub-message that is present but holds only defaults: received empty on the wire,
    # assigned into with a default value, passed to the constructor, two levels deep, and beside other fields
    # (seeded change C04-3: from_dict building the child without marking it present loses it from the bytes)
    pm = fn("p_message", "msg")
    m = KPlain()
    m.parse(bytes.fromhex("8a0100"))
    out.append(("plain-empty-message-received", m))
    m = KPlain()
    getattr(m, pm).x = 0
    out.append(("plain-empty-message-assigned-default", m))
    out.append(("plain-empty-message-ctor", KPlain(**{pm: Inner(x=0)})))
    m = KPlain(**{pm: Inner(rec=Inner(s=""))})
    out.append(("plain-empty-message-two-deep", m))
    m = KPlain(p_int32_2=7)
    getattr(m, pm).o = None
    out.append(("plain-empty-message-optional-none", m))
    # K12: a non-empty message below a lazily created intermediate
    m = KPlain()
    getattr(m, fn("p_message", "msg")).rec.x = 5
    out.append(("lazy-intermediate", m))
    m = Inner(x=3)
    m.parse(b"\x98\x06\x01")
    out.append(("unknown-fields", m))
    out.append(("nan-in-container", KRep(**{fn("r_double"): [float("nan")]})))
    import struct
    out.append(("nan-payload", KPlain(**{fn("p_double"): struct.unpack("<d", struct.pack("<Q", 0xFFF8000000000001))[0]})))
    return out


class JSchema(msggen.Schema):
    """msggen.Schema plus REPEATED WRAPPER fields (`repeated google.protobuf.BytesValue x = 1;` -> List[...] with meta.wraps):
    a Field of card "repeated" carrying the attribute wraps_rep = True.  msggen's value generators see a repeated scalar."""

    def _build(self):
        import dataclasses
        import sys
        import types
        from datetime import datetime, timedelta
        from typing import Dict, List, Optional
        import betterproto as bp
        msggen.Schema._counter += 1
        self.modname = f"verif_schema_{msggen.Schema._counter}"
        mod = types.ModuleType(self.modname)
        sys.modules[self.modname] = mod
        self.mod = mod
        mod.__dict__.update({"List": List, "Dict": Dict, "Optional": Optional, "datetime": datetime, "timedelta": timedelta})
        for i, members in enumerate(self.enums):
            en = type(bp.Enum)(f"E{i}", (bp.Enum,), dict(members, __module__=self.modname))
            setattr(mod, f"E{i}", en)
            self.pyenums.append(en)
        for c in self.classes:
            fl = []
            for f in c.fields:
                t = self._pytype(f.elem)
                rep_wrap = getattr(f, "wraps_rep", False)
                if f.card in ("optional", "wrapper"):
                    ann = Optional[t]
                elif f.card == "repeated":
                    ann = List[t]
                elif f.card == "map":
                    ann = Dict[self._pytype(f.key), t]
                else:
                    ann = t
                group = None if f.group is None else f"g{f.group}"
                df = bp.dataclass_field(
                    f.number, "message" if rep_wrap else f.proto_type,
                    map_types=(f.key.pt, f.elem.pt) if f.card == "map" else None,
                    group=group,
                    wraps=f.elem.pt if (f.card == "wrapper" or rep_wrap) else None,
                    optional=f.card == "optional")
                fl.append((f.name, ann, df))
            py = dataclasses.make_dataclass(c.name, fl, bases=(bp.Message,), eq=False, repr=False)
            py.__module__ = self.modname
            setattr(mod, c.name, py)
            c.py = py
        self.index_of = {c.py: msggen.NBUILTIN + i for i, c in enumerate(self.classes)}

    def _field(self, f):
        lit = super()._field(f)
        if getattr(f, "wraps_rep", False):
            pt = msggen.PT[f.elem.pt]
            # (mkF name num TYPE fmap grp wraps opt hint entry): message-typed, wraps set
            lit = lit.replace(f")%Z {pt} None None None false (HList", f")%Z TMessage None None (Some {pt}) false (HList", 1)
            assert "TMessage None None (Some" in lit, lit
        return lit


def wrapper_schema():
    """singular and repeated wrapper fields of every wrappable type (not a wf_schema: WellFormed has no repeated wrappers)"""
    fields = []
    for i, w in enumerate(msggen.WRAPPABLE):
        f = msggen.Field(f"rw_{w}", i + 1, "repeated", msggen.scalar(w))
        f.wraps_rep = True
        fields.append(f)
    for i, w in enumerate(msggen.WRAPPABLE):
        fields.append(msggen.Field(f"w_{w}", 20 + i, "wrapper", msggen.scalar(w)))
    return JSchema([msggen.Cls("KRepWrapper", fields)], [[("ZERO", 0)]])


def recursive_classes(s):
    """classes from which a cycle of message-typed fields is reachable: materialising the defaults there never ends"""
    edges = {i: {f.elem.ref for f in c.fields if f.elem.kind == "msg"} for i, c in enumerate(s.classes)}

    def reach(i):
        seen, todo = set(), list(edges[i])
        while todo:
            j = todo.pop()
            if j not in seen:
                seen.add(j)
                todo.extend(edges[j])
        return seen
    cyc = {i for i in edges if i in reach(i)}
    return {i for i in edges if i in cyc or reach(i) & cyc}


def make_lazy(s, ci, m):
    """K12: assign below two lazily created intermediates (m.a.b.x = 7): m.a keeps _serialized_on_wire False"""
    for f in s.classes[ci].fields:
        if f.card == "plain" and f.elem.kind == "msg" and f.group is None and object.__getattribute__(m, f.name) is msggen.bp.PLACEHOLDER:
            a = getattr(m, f.name)
            for g in s.classes[f.elem.ref].fields:
                if g.card == "plain" and g.elem.kind == "msg" and g.group is None:
                    b = getattr(a, g.name)
                    for h in s.classes[g.elem.ref].fields:
                        if h.card == "plain" and h.elem.kind == "scalar" and h.elem.pt in ("int32", "int64", "uint32") and h.group is None:
                            setattr(b, h.name, 7)
                            return True
    return False


# --------------------------------------------------------------------------------------
# stage 2: include_default_values=True and repeated wrapper fields (second part of Properties/C04.v)
# --------------------------------------------------------------------------------------
INCL_BYTES_CLS = "incl-unset-submessage"


def incl_schema():
    """a schema without any recursive class (Cls().to_dict(include_default_values=True) terminates): plain / optional / repeated /
    map / oneof / wrapper positions of a sub-message and of scalars, Timestamp, enum, bytes, int64; a second level of nesting"""
    S, E, F, C = msggen.scalar, msggen.Elem, msggen.Field, msggen.Cls
    leaf = C("Leaf", [F("y", 1, "plain", S("int32")), F("s", 2, "plain", S("string")), F("t", 3, "plain", E("datetime", "message")),
                      F("e", 4, "plain", E("enum", "enum", 0)), F("b", 5, "plain", S("bytes")), F("q", 6, "plain", S("int64")),
                      F("o", 7, "optional", S("int32")), F("d", 8, "plain", E("timedelta", "message"))])
    mid = C("Mid", [F("leaf", 1, "plain", E("msg", "message", 0)), F("n", 2, "plain", S("uint32")),
                    F("ol", 3, "optional", E("msg", "message", 0))])
    outer = C("Outer", [F("x", 1, "plain", S("int32")), F("sub", 2, "plain", E("msg", "message", 0)),
                        F("o", 3, "optional", S("int32")), F("os", 4, "optional", E("msg", "message", 0)),
                        F("rs", 5, "repeated", E("msg", "message", 0)), F("m", 6, "map", E("msg", "message", 0), key=S("string")),
                        F("u", 7, "plain", S("int64"), group=0), F("v", 8, "plain", E("msg", "message", 0), group=0),
                        F("w", 9, "wrapper", S("int64")), F("d", 10, "plain", S("double")), F("t", 11, "plain", E("datetime", "message")),
                        F("mid", 12, "plain", E("msg", "message", 1)), F("rd", 13, "repeated", S("double")),
                        F("mi", 14, "map", S("bytes"), key=S("int32"))], ngroups=1)
    return msggen.Schema([leaf, mid, outer], [[("ZERO", 0), ("ONE", 1), ("NEG", -1)]])


def _nested_messages(schema, c, m):
    import betterproto as bp
    for f in c.fields:
        v = jsongen.raw(m, f.name)
        if v is bp.PLACEHOLDER or v is None:
            continue
        items = list(v) if isinstance(v, list) else list(v.values()) if isinstance(v, dict) else [v]
        for x in items:
            if isinstance(x, bp.Message):
                yield f, x


def py_all_present(schema, m):
    """C04InclDef.all_present on the real object: every plain sub-message field outside a oneof, at every depth, holds a message
    whose _serialized_on_wire is True"""
    import betterproto as bp
    c = schema.classes[schema.index_of[type(m)] - msggen.NBUILTIN]
    for f in c.fields:
        if f.card == "plain" and f.elem.kind == "msg" and f.group is None:
            v = jsongen.raw(m, f.name)
            if not (isinstance(v, bp.Message) and jsongen.raw(v, "_serialized_on_wire")):
                return False
    return all(py_all_present(schema, x) for _, x in _nested_messages(schema, c, m))


DEFAULT_FUEL = 6          # Model/Json.v default_fuel


def py_defaults_ok(schema, fuel, ci):
    """C04InclDef.defaults_ok: the chain of plain sub-message fields below class ci is shorter than the fuel"""
    if fuel == 0:
        return False
    return all(py_defaults_ok(schema, fuel - 1, f.elem.ref) for f in schema.classes[ci].fields
               if f.card == "plain" and f.elem.kind == "msg" and f.group is None)


def py_defaults_reach(schema, m):
    import betterproto as bp
    c = schema.classes[schema.index_of[type(m)] - msggen.NBUILTIN]
    for f in c.fields:
        if f.card == "plain" and f.elem.kind == "msg" and f.group is None and jsongen.raw(m, f.name) is bp.PLACEHOLDER:
            if not py_defaults_ok(schema, DEFAULT_FUEL, f.elem.ref):
                return False
    return all(py_defaults_reach(schema, x) for _, x in _nested_messages(schema, c, m))


def make_present(schema, ci, m, rng, depth=0):
    """give every unset plain sub-message field (outside a oneof) a PRESENT empty message, the way a peer does: received as `tag 00`"""
    import betterproto as bp
    if depth > 6:
        return
    for f in schema.classes[ci].fields:
        if f.card == "plain" and f.elem.kind == "msg" and f.group is None:
            v = jsongen.raw(m, f.name)
            if not isinstance(v, bp.Message):
                v = schema.classes[f.elem.ref].py().parse(b"")
                setattr(m, f.name, v)
            elif not jsongen.raw(v, "_serialized_on_wire"):
                v._serialized_on_wire = True
    c = schema.classes[ci]
    for f, x in _nested_messages(schema, c, m):
        make_present(schema, f.elem.ref, x, rng, depth + 1)


def incl_stage(ctx, schemas, not_wf, recursive):
    """correspondence of the side conditions and the normal form of the include_default_values=True / repeated wrapper theorems
    (all_present, defaults_reach, wfx_schema, in_rangex, goodx, gnorm_obj) with the implementation, and the oracle: the property
    itself through to_dict(include_default_values=True) on the implementation"""
    import betterproto as bp
    rng = ctx.rng
    t1 = time.time()
    schemas = list(schemas) + [incl_schema()]
    own = {len(schemas) - 1}
    recursive = list(recursive) + [recursive_classes(schemas[-1])]
    prelude = "\n".join(f"Definition sc{i} : schema := {s.coq()}." for i, s in enumerate(schemas))
    pairs, meta = [], []
    for si, s in enumerate(schemas):
        pairs.append((f"CL [cbool (wfx_schema sc{si}); cbool (wf_schema sc{si})]", cl([cbool(True), cbool(si not in not_wf)])))
        meta.append((si, None, None, "schema", None))

    def one(si, s, ci, m, tag):
        cls = type(m)
        cidx = msggen.NBUILTIN + ci
        lit = msggen.obj_literal(s, m)            # BEFORE any observer
        feats = jsongen.features(s, m)
        if nan_payload(s, m):
            feats.add("nan-payload")
        supported = not (feats & {"unknown-fields", "lazy-intermediate", "nan-in-container", "nan-payload"})
        clean = "oneof-unclean" not in feats
        in_range = jsongen.in_range(s, m)
        present = py_all_present(s, m)
        reach = py_defaults_reach(s, m)
        good = supported and clean and in_range
        model = [f"cbool (all_present sc{si} o)", f"cbool (defaults_reach sc{si} o)", f"cbool (in_rangex sc{si} o)",
                 f"cbool (goodx sc{si} o)"]
        exp = [cbool(present), cbool(reach), cbool(in_range), cbool(good)]
        dicts = {}
        if reach:
            for cs in CASINGS:
                try:
                    dicts[cs] = copy.deepcopy(m).to_dict(casing=getattr(bp.Casing, cs), include_default_values=True)
                except RecursionError:
                    ctx.fail("oracle", "to_dict(include_default_values=True) raises RecursionError although defaults_reach holds", cls=None,
                             input={"schema": s.describe(), "class": s.classes[ci].name, "repr": repr(m)[:2000], "casing": cs})
                except msggen.Unmodellable:
                    raise
                except Exception as e:  # noqa
                    ctx.fail("oracle", f"to_dict(include_default_values=True) raises {type(e).__name__}: {e}", cls=None,
                             input={"schema": s.describe(), "class": s.classes[ci].name, "repr": repr(m)[:2000], "casing": cs})
        # the normal form of the theorems is what the implementation builds
        if good and reach and "CAMEL" in dicts:
            d = dicts["CAMEL"]
            model.append(f"cv_of_obj (gnorm_obj true sc{si} o)")
            exp.append(snap(s, lambda: cls.from_dict(d)))
            model.append(f"cv_obj_res (json_rt_inst SNAKE true sc{si} o (new sc{si} {cidx}))")
            exp.append(snap(s, lambda: cls().from_json(copy.deepcopy(m).to_json(casing=bp.Casing.SNAKE, include_default_values=True))))
        if good and si in not_wf:
            d0 = copy.deepcopy(m).to_dict()
            model.append(f"cv_of_obj (gnorm_obj false sc{si} o)")
            exp.append(snap(s, lambda: cls.from_dict(d0)))
        pairs.append((f"(let o := {lit} in CL [" + "; ".join(model) + "])", cl(exp)))
        meta.append((si, ci, m, tag, feats))
        ctx.count("incl:cases")
        if good and present:
            ctx.count("incl:meets_all_hypotheses_of_C04_incl_dict_rt")
        if good and reach and not present:
            ctx.count("incl:meets_hypotheses_of_C04_incl_eq_rt_only")
        if good and si in not_wf:
            ctx.count("incl:meets_all_hypotheses_of_C04_repwrap_dict_rt")
        # ---- oracle: the property itself, through to_dict(include_default_values=True)
        if not in_range or not clean or not reach:
            ctx.count("incl:oracle_skipped_outside_domain")
            return
        try:
            b = bytes(copy.deepcopy(m))
        except Exception:  # noqa
            ctx.count("incl:oracle_skipped_unencodable")
            return
        inp = {"schema": s.describe(), "class": s.classes[ci].name, "repr": repr(m)[:2000], "tag": tag, "features": sorted(feats),
               "all_present": present, "include_default_values": True}
        for cs in CASINGS:
            d = dicts.get(cs)
            if d is None:
                continue
            try:
                text = json.dumps(d)
            except Exception as e:  # noqa
                ctx.fail("oracle", f"json.dumps(to_dict(m, include_default_values=True)) raises {type(e).__name__}: {e}", cls=None,
                         input=dict(inp, casing=cs, dict=repr(d)[:1500]))
                text = None
            forms = [("from_dict(class)", lambda: cls.from_dict(d)), ("from_dict(instance)", lambda: cls().from_dict(d))]
            if text is not None:
                forms += [("from_dict(class) via text", lambda: cls.from_dict(json.loads(text))),
                          ("from_json(to_json)", lambda: cls().from_json(copy.deepcopy(m).to_json(casing=getattr(bp.Casing, cs),
                                                                                                   include_default_values=True)))]
            for name, f in forms:
                try:
                    r = f()
                except Exception as e:  # noqa
                    ctx.fail("oracle", f"{name} raises {type(e).__name__} on to_dict(m, include_default_values=True)", cls=None,
                             input=dict(inp, casing=cs, dict=repr(d)[:1500], error=str(e)[:300]))
                    continue
                if not (r == m):
                    k = [c for c in EQ_CLASSES if c in feats]
                    ctx.fail("oracle", f"{name}(to_dict(m, include_default_values=True)) != m", cls=k[0] if k else None,
                             input=dict(inp, casing=cs, dict=repr(d)[:1500], result=repr(r)[:1500]))
                try:
                    rb = bytes(r)
                except Exception as e:  # noqa
                    rb = f"raises {type(e).__name__}: {e}"
                if rb != b:
                    k = [c for c in BYTES_CLASSES if c in feats] + ([INCL_BYTES_CLS] if not present else [])
                    ctx.fail("oracle", f"bytes({name}(to_dict(m, include_default_values=True))) != bytes(m)", cls=k[0] if k else None,
                             input=dict(inp, casing=cs, dict=repr(d)[:1500], bytes=b.hex()[:400],
                                        result_bytes=(rb.hex() if isinstance(rb, bytes) else rb)[:400]))

    # the witness of C04_incl_unset_submessage_refuted and its repaired twin, on the non-recursive schema
    sx = schemas[-1]
    xi = len(schemas) - 1
    Outer, Leaf, Mid = sx.classes[2].py, sx.classes[0].py, sx.classes[1].py
    fixed = [("incl-unset-submessage", Outer(x=3)),
             ("incl-fresh-submessage-ctor", Outer(x=3, sub=Leaf(), mid=Mid())),
             ("incl-present-empty", Outer(x=3, sub=Leaf().parse(b""), mid=Mid(leaf=Leaf().parse(b"")).parse(b""))),
             ("incl-present-values", Outer(sub=Leaf(y=7, q=2 ** 40, b=b"ab"), mid=Mid(leaf=Leaf(s="x"), n=1), os=Leaf(), rs=[Leaf(), Leaf(y=1)],
                                           m={"a": Leaf()}, v=Leaf(), d=0.0, rd=[0.0, -0.0], mi={1: b"", -7: b"x"}))]
    for tag, m in fixed:
        try:
            one(xi, sx, 2, m, tag)
        except (msggen.Unmodellable, RecursionError):
            ctx.count("incl:unmodellable")
    sw_i = [i for i in not_wf][0]
    sw = schemas[sw_i]
    RW = sw.classes[0].py
    for tag, m in [("repeated-wrapper-empty", RW()),
                   ("repeated-wrapper-values", RW(rw_bytes=[b"ab", b""], rw_int64=[2 ** 40, 0, -1], rw_double=[float("inf"), 1.5],
                                                  rw_string=["", "x"], rw_bool=[True, False], rw_uint64=[2 ** 64 - 1], w_bytes=b"x")),
                   ("repeated-wrapper-nan", RW(rw_double=[float("nan")]))]:
        try:
            one(sw_i, sw, 0, m, tag)
        except (msggen.Unmodellable, RecursionError):
            ctx.count("incl:unmodellable")
    n_per = (25 if not ctx.thorough else 250)
    for si, s in enumerate(schemas):
        k = n_per * (3 if si in own else 1)
        for _ in range(k):
            ci = rng.randrange(len(s.classes))
            try:
                m = msggen.gen_message(s, ci, rng, in_range=rng.random() < 0.9)
                if ci not in recursive[si] and rng.random() < (0.6 if si in own else 0.4):
                    make_present(s, ci, m, rng)
                one(si, s, ci, m, "random")
            except (msggen.Unmodellable, RecursionError):
                ctx.count("incl:unmodellable")
                continue
            except Exception as e:  # constructing the value itself failed: not this property's business
                ctx.count("incl:construct_error:" + type(e).__name__)
                continue
    t_gen = time.time() - t1
    bad = lib.coq_compare(ctx, "c04incl", IMPORTS_INCL, pairs, chunk=max(8, len(pairs) // 16 + 1), prelude=prelude)
    ctx.notes.append(f"stage 2 (include_default_values=True, repeated wrappers): python side {t_gen:.1f}s, coq side "
                     f"{time.time() - t1 - t_gen:.1f}s, {len(pairs)} cases")
    for i in bad[:20]:
        si, ci, m, tag, feats = meta[i]
        if tag == "schema":
            ctx.fail("corr", "a generated schema does not meet wfx_schema / wf_schema as expected (hypotheses of the theorems)",
                     input={"schema": schemas[si].describe()})
            continue
        ctx.fail("corr", "model side conditions / normal form of the include_default_values=True and repeated wrapper theorems "
                         "(all_present, defaults_reach, in_rangex, goodx, gnorm_obj) and implementation disagree",
                 input={"schema": schemas[si].describe(), "class": schemas[si].classes[ci].name, "repr": repr(m)[:2000], "tag": tag,
                        "features": sorted(feats), "model_expr": pairs[i][0][:DBG], "implementation": pairs[i][1][:DBG]})
    ctx.cov["disagreements_checked"] += len(pairs)
    schemas[-1].dispose()


def run(ctx):
    import betterproto as bp
    rng = ctx.rng
    schemas = [msggen.matrix_schema()] + [msggen.random_schema(rng) for _ in range(5 if not ctx.thorough else 40)] + [wrapper_schema()]
    not_wf = {len(schemas) - 1}
    prelude = "\n".join(f"Definition sc{i} : schema := {s.coq()}." for i, s in enumerate(schemas))
    pairs, meta = [], []
    n_per = (40 if not ctx.thorough else 400)
    recursive = [recursive_classes(s) for s in schemas]

    # schema-level side conditions of the theorems hold on what is generated
    for si, s in enumerate(schemas):
        pairs.append((f"CL [cbool (wf_schema sc{si}); cbool (keys_ok CAMEL sc{si}); cbool (keys_ok SNAKE sc{si})]",
                      cl([cbool(si not in not_wf), cbool(True), cbool(True)])))
        meta.append((si, None, None, "schema", None))

    def one_case(si, s, ci, m, tag, in_range, other):
        cls = type(m)
        cidx = msggen.NBUILTIN + ci
        lit = msggen.obj_literal(s, m)           # BEFORE any observer: to_dict materialises lazy defaults
        lit_other = msggen.obj_literal(s, other) if other is not None else None
        feats = jsongen.features(s, m)
        if nan_payload(s, m):
            feats.add("nan-payload")
        supported = not (feats & {"unknown-fields", "lazy-intermediate", "nan-in-container", "nan-payload"})
        clean = "oneof-unclean" not in feats
        model, exp, lets = [], [], {}

        def add(mexpr, e):
            # identical snapshot literals (the forms of the round trip usually build the same object) are written once
            if len(e) > 200:
                e = lets.setdefault(e, f"r{len(lets)}")
            for cs_ in CASINGS:
                mexpr = mexpr.replace(f"(to_dict {cs_} false sc{si} o)", f"d{cs_}")
            model.append(mexpr)
            exp.append(e)

        # ---- to_dict
        dicts = {}
        for cs in CASINGS:
            for incl in (False, True):
                if incl and (ci in recursive[si] or cs == "SNAKE"):
                    continue            # Cls().to_dict(include_default_values=True) never returns on a recursive type
                try:
                    d = (copy.deepcopy(m) if incl else m).to_dict(casing=getattr(bp.Casing, cs), include_default_values=incl)
                    dicts[(cs, incl)] = d
                    add(f"cv_of_json (to_dict {cs} {'true' if incl else 'false'} sc{si} o)", jsongen.json_cv(d))
                except RecursionError:
                    ctx.count("to_dict_incl_recursion")
                except msggen.Unmodellable:
                    raise
                except Exception as e:  # noqa
                    ctx.fail("oracle", f"to_dict raises {type(e).__name__}: {e}", cls=None,
                             input={"schema": s.describe(), "class": s.classes[ci].name, "repr": repr(m)[:2000], "casing": cs})
        # ---- from_dict / from_json, every form
        for cs in CASINGS:
            d = dicts.get((cs, False))
            if d is None:
                continue
            add(f"cv_obj_res (from_dict_cls sc{si} {cidx} (to_dict {cs} false sc{si} o))", snap(s, lambda: cls.from_dict(d)))
            add(f"cv_obj_res (from_dict_inst sc{si} (new sc{si} {cidx}) (to_dict {cs} false sc{si} o))", snap(s, lambda: cls().from_dict(d)))
            add(f"cv_obj_res (json_rt_cls {cs} false sc{si} o)", snap(s, lambda: cls.from_dict(json.loads(json.dumps(d)))))
            add(f"cv_obj_res (json_rt_inst {cs} false sc{si} o (new sc{si} {cidx}))",
                snap(s, lambda: cls().from_json(m.to_json(casing=getattr(bp.Casing, cs)))))
            try:
                add(f"cv_json_res (dumps_loads (to_dict {cs} false sc{si} o))", jsongen.json_cv(json.loads(json.dumps(d))))
            except (TypeError, ValueError):
                add(f"cv_json_res (dumps_loads (to_dict {cs} false sc{si} o))", ce("EOther"))
        dt = dicts.get(("CAMEL", True))
        if dt is not None:
            add(f"cv_obj_res (from_dict_cls sc{si} {cidx} (to_dict CAMEL true sc{si} o))", snap(s, lambda: cls.from_dict(dt)))
        if other is not None and ("SNAKE", False) in dicts:
            o2 = other
            add(f"cv_obj_res (from_dict_inst sc{si} {lit_other} (to_dict SNAKE false sc{si} o))",
                snap(s, lambda: o2.from_dict(dicts[("SNAKE", False)])))
        # ---- side conditions evaluated inside Coq agree with the feature walk
        add(f"cbool (json_supported sc{si} o)", cbool(supported))
        add(f"cbool (oneof_ok sc{si} o)", cbool(clean))
        add(f"cbool (dicts_ok sc{si} o)", cbool(True))
        in_range = jsongen.in_range(s, m)
        wf = si not in not_wf
        if wf:
            add(f"cbool (in_range sc{si} o)", cbool(in_range))
        # ---- the normal form of the theorems is what the implementation builds
        d = dicts.get(("CAMEL", False))
        if wf and supported and clean and in_range and d is not None:
            add(f"cv_of_obj (norm_obj sc{si} o)", snap(s, lambda: cls.from_dict(d)))
        pairs.append((f"(let o := {lit} in let dCAMEL := to_dict CAMEL false sc{si} o in let dSNAKE := to_dict SNAKE false sc{si} o in CL ["
                      + "; ".join(model) + "])",
                      "(" + "".join(f"let {n} := {e} in " for e, n in lets.items()) + cl(exp) + ")"))
        meta.append((si, ci, m, tag, feats))
        ctx.cov["evaluations"] += 1
        ctx.count("cases")
        if wf and supported and clean and in_range:
            ctx.count("meets_all_theorem_hypotheses")
        for ft in feats:
            ctx.count("feature:" + ft)

        # ---- oracle: the property itself on the implementation
        if not in_range or not clean:
            ctx.count("oracle_skipped_outside_domain")
            return
        try:
            b = bytes(m)
        except Exception:  # noqa
            ctx.count("oracle_skipped_unencodable")
            return
        inp = {"schema": s.describe(), "class": s.classes[ci].name, "repr": repr(m)[:2000], "tag": tag, "features": sorted(feats)}
        for cs in CASINGS:
            d = dicts.get((cs, False))
            if d is None:
                continue
            if d:
                ctx.seen_nontrivial((si, ci, jsongen.canon(d)))
            try:
                text = json.dumps(d)
            except Exception as e:  # noqa
                ctx.fail("oracle", f"json.dumps(to_dict(m)) raises {type(e).__name__}: {e}", cls=None, input=dict(inp, casing=cs, dict=repr(d)[:1500]))
                text = None
            forms = [("from_dict(class)", lambda: cls.from_dict(d)), ("from_dict(instance)", lambda: cls().from_dict(d))]
            if text is not None:
                forms += [("from_dict(class) via text", lambda: cls.from_dict(json.loads(text))),
                          ("from_json(to_json)", lambda: cls().from_json(m.to_json(casing=getattr(bp.Casing, cs))))]
            for name, f in forms:
                try:
                    r = f()
                except Exception as e:  # noqa
                    ctx.fail("oracle", f"{name} raises {type(e).__name__} on to_dict(m)", cls=None, input=dict(inp, casing=cs, dict=repr(d)[:1500], error=str(e)[:300]))
                    continue
                if not (r == m):
                    k = [c for c in EQ_CLASSES if c in feats]
                    ctx.fail("oracle", f"{name}(to_dict(m)) != m", cls=k[0] if k else None,
                             input=dict(inp, casing=cs, dict=repr(d)[:1500], result=repr(r)[:1500]))
                try:
                    rb = bytes(r)
                except Exception as e:  # noqa
                    rb = f"raises {type(e).__name__}: {e}"
                if rb != b:
                    k = [c for c in BYTES_CLASSES if c in feats]
                    ctx.fail("oracle", f"bytes({name}(to_dict(m))) != bytes(m)", cls=k[0] if k else None,
                             input=dict(inp, casing=cs, dict=repr(d)[:1500], bytes=b.hex()[:400], result_bytes=(rb.hex() if isinstance(rb, bytes) else rb)[:400]))
        if len(ctx.cov["samples"]) < 6 and dicts.get(("CAMEL", False)):
            ctx.sample({"class": s.classes[ci].name, "repr": repr(m)[:300], "to_dict": repr(dicts[("CAMEL", False)])[:300]})

    # regression witnesses first
    s0 = schemas[0]
    idx = {c.py: i for i, c in enumerate(s0.classes)}
    for tag, m in regression_messages(s0):
        try:
            one_case(0, s0, idx[type(m)], m, tag, True, None)
        except (msggen.Unmodellable, RecursionError):
            ctx.count("unmodellable")
    sw = schemas[-1]
    RW = sw.classes[0].py
    for tag, m in [("repeated-wrapper-empty", RW()),
                   ("repeated-wrapper-values", RW(rw_bytes=[b"ab", b""], rw_int64=[2 ** 40, 0, -1], rw_double=[float("inf"), 1.5],
                                                  rw_string=["", "x"], rw_bool=[True, False], rw_uint64=[2 ** 64 - 1], w_bytes=b"x"))]:
        try:
            one_case(len(schemas) - 1, sw, 0, m, tag, True, None)
        except (msggen.Unmodellable, RecursionError):
            ctx.count("unmodellable")
    for si, s in enumerate(schemas):
        k = n_per * (4 if si == 0 else 1)
        for _ in range(k):
            ci = rng.randrange(len(s.classes))
            in_range = rng.random() < 0.9
            try:
                m = msggen.gen_message(s, ci, rng, in_range=in_range)
                other = msggen.gen_message(s, ci, rng, in_range=True) if rng.random() < 0.3 else None
                if rng.random() < 0.04:
                    make_lazy(s, ci, m)
                one_case(si, s, ci, m, "random", in_range, other)
            except (msggen.Unmodellable, RecursionError):
                ctx.count("unmodellable")
                continue
            except Exception as e:  # constructing the value itself failed: not this property's business
                ctx.count("construct_error:" + type(e).__name__)
                continue
    t_gen = time.time() - ctx.t0
    bad = lib.coq_compare(ctx, "c04", IMPORTS, pairs, chunk=max(8, len(pairs) // 16 + 1), prelude=prelude)
    ctx.notes.append(f"python side {t_gen:.1f}s, coq side {time.time() - ctx.t0 - t_gen:.1f}s, {len(pairs)} cases")
    for i in bad[:20]:
        si, ci, m, tag, feats = meta[i]
        if tag == "schema":
            ctx.fail("corr", "a generated schema does not meet wf_schema / keys_ok (hypotheses of the theorems)",
                     input={"schema": schemas[si].describe()})
            continue
        ctx.fail("corr", "model (Model/Json.v to_dict / from_dict / text path / side conditions) and implementation disagree",
                 input={"schema": schemas[si].describe(), "class": schemas[si].classes[ci].name, "repr": repr(m)[:2000], "tag": tag,
                        "features": sorted(feats), "model_expr": pairs[i][0][:DBG], "implementation": pairs[i][1][:DBG]})
    ctx.cov["disagreements_checked"] = len(pairs)
    # stage 2 (added; the stage above is unchanged): include_default_values=True and repeated wrapper fields
    incl_stage(ctx, schemas, not_wf, recursive)
    for s in schemas:
        s.dispose()


def finish(ctx):
    return lib.finish(
        ctx, "proof",
        "Coq theorems over a Gallina mirror of Message.to_dict / _from_dict_init / from_dict (both forms) / the json text path "
        "+ executable correspondence (vm_compute) with the implementation + the property evaluated on the implementation",
        ASSUMPTIONS, TRUSTED, RULE,
        extra_cov={"explanation": "theorems are unbounded (all well-formed schemas, all in-range supported values); the correspondence samples schemas and values"})


def replay(ctx, obj):
    print(json.dumps(obj, indent=1, default=repr)[:6000])
    return 0
