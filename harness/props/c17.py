"""C17 — malformed or truncated input is rejected or isolated, never mis-decoded:
correspondence (T2: parse / FromString / load against Model/Decode.v), oracle (typing of every field,
bytes(result), isolation of mismatching and group records, rejection of spec-invalid input), reference
decoder's accept/reject decision recorded per fault class."""
import io
import json
import os
import struct
from datetime import datetime, timedelta

from .. import lib, msggen, wiregen
from ..lib import cl, cb
from ..msggen import NBUILTIN, Cls, Elem, Field, Schema, enc_varint

IMPORTS = ("Model.Types Model.Object Model.Eq Model.Encode Model.Decode Model.Canon Model.WellFormed Model.C17Typed "
           "gen.Tables")
GAP_IMPORTS = IMPORTS + " Model.C17Wire Model.C17GapDefs Model.C17GapCv"
EXTRA_TARGETS = ["Model/Canon.vo", "Model/Decode.vo", "Model/C17Typed.vo", "Model/C17GapCv.vo", "Proofs/C17GapCvP.vo"]

TRUSTED = [
    "Coq 8.16.1 kernel and vm_compute (no native_compute); full .vo build via coq_makefile",
    "axioms: none (every theorem of Properties/C17.v is 'Closed under the global context')",
    "hand-written model coq/Model/Decode.v (+ Object, Encode, Varint, Scalar, Float, Utf8, TimeCore) tied to /repo by executable "
    "correspondence (this harness): parse / well_typed / decoded_range / enc_obj are evaluated by vm_compute inside Coq on the byte "
    "strings the implementation decoded and compared with the snapshot of the real result (or with the fact that it raised)",
    "coq/Model/C17Step.v is a restatement of Message.load's loop body in named pieces; Proofs/C17StepP.v proves it EQUAL to Model/Decode.load, "
    "so it adds nothing to the trusted base",
    "coq/Model/C17Wire.v: the specification of 'a complete record' (tag, payload by wire type, groups nested) the prefix / bad-tag / "
    "mismatch / group theorems quantify over; harness/wiregen.read_records is the executable twin used to classify inputs",
    "translator harness/gen_tables.py (type tables, _pack_fmt, wrapper and Timestamp/Duration layouts reflected into coq/gen/Tables.v)",
    "Python side: harness/msggen.py (schemas, values, snapshots through object.__getattribute__), this file's fault injectors and typing oracle",
    "float32 conversion (Model/Float.v d2f/f2d) is validated by the correspondence; the one fact the re-encodability theorem uses about it "
    "(pack(unpack(w)) does not overflow) is proved for all patterns in Proofs/C17FloatP.v",
    "oracle for agreement records only: google.protobuf 7.x (upb) classes built from an in-memory FileDescriptorProto",
    "gap stage: coq/Model/C17GapDefs.v (kept, unk_of: which records a class keeps) is evaluated through coq/Model/C17GapCv.v; its unk_fn is "
    "PROVED to compute the relation unk_of (C17_unk_fn_sound, with C17_unk_of_unique), so it adds nothing to the trusted base; the Python "
    "reading py_keeps of 'the class keeps this record' (encoding guide's wire type per declared type, written a second time) is trusted as "
    "the reading of the property text",
]
ASSUMPTIONS = [
    "Python int is Z; str is its UTF-8 bytes; float is its binary64 pattern; aware datetimes are microseconds since the epoch",
    "a stream is the list of unread bytes; BytesIO.read(n) returns fewer bytes at EOF (that is what _read_exactly checks)",
    "CPython's recursion limit (about 300 nested messages / groups) is not modelled",
    "exceptions are compared as raised / not raised",
]
RULE = ("valid encodings bytes(m) of msggen messages (systematic kind x cardinality schema + random schemas) x ALL truncation points "
        "(exhaustive per message up to a size budget, sampled above it) x single-byte corruption of every tag byte and length byte "
        "(top level and one level of nesting) x all 8 wire-type substitutions on every top-level record (+ first nested level) "
        "+ group records and mismatching records spliced between fields + random byte strings + the regression corpus of the six "
        "former defects. non-trivial = input with at least one complete record; distinct = distinct (class, input bytes). "
        "GAP STAGE on the same inputs: every input additionally framed as varint(len) ++ input ++ rest (rest = nothing / complete records / "
        "incomplete bytes / another frame / garbage; prefix canonical or padded) for load(SIZE_DELIMITED); every accepted input additionally "
        "parsed into a message already holding 1-3 foreign records; one complete record per (class, field, wire type); tag-level faults "
        "(field number 0, wire types 4 / 6 / 7, tag cut, tag of more than ten bytes) appended to accepted inputs")

SPEC_INVALID_MUST_RAISE = True


# --------------------------------------------------------------------------------------
# schema <-> json (for replays)
# --------------------------------------------------------------------------------------
def elem_spec(e):
    return None if e is None else [e.kind, e.pt, e.ref]


def schema_spec(s):
    return {"enums": [[list(m) for m in en] for en in s.enums],
            "classes": [{"name": c.name, "ngroups": c.ngroups,
                         "fields": [{"name": f.name, "number": f.number, "card": f.card, "elem": elem_spec(f.elem),
                                     "key": elem_spec(f.key), "group": f.group} for f in c.fields]} for c in s.classes]}


def schema_from_spec(d):
    def el(x):
        return None if x is None else Elem(x[0], x[1], x[2])
    classes = [Cls(c["name"], [Field(f["name"], f["number"], f["card"], el(f["elem"]), key=el(f["key"]), group=f["group"])
                               for f in c["fields"]], c["ngroups"]) for c in d["classes"]]
    return Schema(classes, [[tuple(m) for m in en] for en in d["enums"]])


# --------------------------------------------------------------------------------------
# spec side: spans of the top-level records (independent of betterproto; wiregen.read_varint)
# --------------------------------------------------------------------------------------
def skip_record(bs, i):
    """index just after the record starting at i; (end, num, wt, payload_start, lenpos); raises WireError"""
    tag, j = wiregen.read_varint(bs, i)
    num, wt = tag >> 3, tag & 7
    if num == 0:
        raise wiregen.WireError("field number 0")
    lenpos = None
    if wt == 0:
        _, k = wiregen.read_varint(bs, j)
    elif wt == 1:
        k = j + 8
    elif wt == 5:
        k = j + 4
    elif wt == 2:
        lenpos = j
        n, j2 = wiregen.read_varint(bs, j)
        k = j2 + n
        j = j2
    elif wt == 3:
        k = j
        while True:
            t, k2 = wiregen.read_varint(bs, k)
            if t & 7 == 4:
                if t >> 3 != num:
                    raise wiregen.WireError("unmatched end group")
                k = k2
                break
            k = skip_record(bs, k)[0]
    elif wt == 4:
        raise wiregen.WireError("unmatched end group")
    else:
        raise wiregen.WireError("wire type %d" % wt)
    if k > len(bs):
        raise wiregen.WireError("eof in record")
    return k, num, wt, j, lenpos


def record_spans(bs):
    """[(start, end, num, wt, payload_start, lenpos)] of the top-level records; raises WireError when malformed"""
    out, i = [], 0
    while i < len(bs):
        k, num, wt, ps, lp = skip_record(bs, i)
        out.append((i, k, num, wt, ps, lp))
        i = k
    return out


def spec_class(bs):
    """('valid', spans) | ('invalid', reason) according to the independent reader"""
    try:
        wiregen.read_records(bs)
    except wiregen.WireError as e:
        return "invalid", str(e)
    except RecursionError:
        return "invalid", "too deep"
    return "valid", record_spans(bs)


WT_OF = {}
for _k in wiregen.VARINT_PACKED:
    WT_OF[_k] = 0
for _k in wiregen.FIXED32_PACKED:
    WT_OF[_k] = 5
for _k in wiregen.FIXED64_PACKED:
    WT_OF[_k] = 1
for _k in ("string", "bytes", "message", "map"):
    WT_OF[_k] = 2


def fits(f, wt):
    """the protobuf rule: does a record of wire type wt belong to declared field f"""
    pt = f.proto_type
    if wt == WT_OF[pt]:
        return True
    return wt == 2 and f.card == "repeated" and pt in WT_OF and WT_OF[pt] != 2


# --------------------------------------------------------------------------------------
# implementation side
# --------------------------------------------------------------------------------------
def snapshot(schema, m):
    return msggen.obj_literal(schema, m)


def run_impl(schema, c, bs):
    """(outcomes of the three entry points) each: ('ok', message) | ('raise', exception)"""
    outs = []
    for how in ("parse", "FromString", "load"):
        try:
            if how == "parse":
                m = c.py().parse(bs)
            elif how == "FromString":
                m = c.py.FromString(bs)
            else:
                m = c.py().load(io.BytesIO(bs))
            outs.append(("ok", m))
        except RecursionError as e:
            outs.append(("recursion", e))
        except Exception as e:  # noqa
            outs.append(("raise", e))
    return outs


def elem_typed(schema, e, v, path, probs):
    if e.kind == "scalar":
        if e.pt == "bool":
            ok = type(v) is bool
        elif e.pt in ("float", "double"):
            ok = type(v) is float
        elif e.pt == "string":
            ok = type(v) is str
            if ok:
                try:
                    v.encode("utf-8")
                except UnicodeError:
                    ok = False
        elif e.pt == "bytes":
            ok = type(v) is bytes
        else:
            ok = type(v) is int
    elif e.kind == "enum":
        ok = isinstance(v, schema.pyenums[e.ref])
    elif e.kind == "msg":
        ok = type(v) is schema.classes[e.ref].py
        if ok:
            obj_typed(schema, e.ref, v, path, probs)
    elif e.kind == "datetime":
        ok = type(v) is datetime and v.tzinfo is not None
    else:
        ok = type(v) is timedelta
    if not ok:
        probs.append(f"{path}: {type(v).__name__} value {v!r:.80} in a field declared {e}")


def obj_typed(schema, ci, m, path, probs):
    import betterproto as bp
    c = schema.classes[ci]
    gc = object.__getattribute__(m, "_group_current")
    for f in c.fields:
        v = object.__getattribute__(m, f.name)
        p = f"{path}.{f.name}"
        if v is bp.PLACEHOLDER:
            continue
        if f.group is not None and gc.get(f"g{f.group}") != f.name:
            probs.append(f"{p}: oneof member holds {v!r:.60} but its group selects {gc.get('g%d' % f.group)!r}")
        if v is None:
            if f.card not in ("optional", "wrapper"):
                probs.append(f"{p}: None in a field that is not Optional")
            continue
        if f.card == "repeated":
            if type(v) is not list:
                probs.append(f"{p}: {type(v).__name__} in a repeated field")
            else:
                for j, x in enumerate(v):
                    elem_typed(schema, f.elem, x, f"{p}[{j}]", probs)
        elif f.card == "map":
            if type(v) is not dict:
                probs.append(f"{p}: {type(v).__name__} in a map field")
            else:
                for k, x in v.items():
                    elem_typed(schema, f.key, k, f"{p}<key>", probs)
                    elem_typed(schema, f.elem, x, f"{p}[{k!r:.20}]", probs)
        else:
            elem_typed(schema, f.elem, v, p, probs)
    for g in range(c.ngroups):
        sel = gc.get(f"g{g}")
        if sel is not None and sel not in [f.name for f in c.fields if f.group == g]:
            probs.append(f"{path}: _group_current[g{g}] = {sel!r} is not a member of the group")


# --------------------------------------------------------------------------------------
# fault injection
# --------------------------------------------------------------------------------------
def tag_and_length_positions(bs, spans, schema, c, depth=1):
    """byte positions of every tag byte and every length byte: top level, and inside the payload of
    length-delimited records of message-typed fields (one level)"""
    pos = []
    by_num = {f.number: f for f in c.fields}
    for (a, b, num, wt, ps, lp) in spans:
        tagend = lp if lp is not None else ps
        if wt == 2:
            pos.extend(("tag", p) for p in range(a, lp))
            pos.extend(("len", p) for p in range(lp, ps))
            f = by_num.get(num)
            if depth and f is not None and f.proto_type in ("message", "map") and b - ps > 0:
                try:
                    inner = record_spans(bs[ps:b])
                except wiregen.WireError:
                    inner = []
                for (ia, ib, inum, iwt, ips, ilp) in inner:
                    e = ilp if ilp is not None else ips
                    pos.extend(("ntag", ps + p) for p in range(ia, e))
                    if ilp is not None:
                        pos.extend(("nlen", ps + p) for p in range(ilp, ips))
        else:
            pos.extend(("tag", p) for p in range(a, tagend))
    return pos


def gen_group(rng, num, depth=0):
    """a well-formed group record with field number num; inner records reuse small field numbers on purpose"""
    body = bytearray()
    for _ in range(rng.randint(0, 3)):
        inum = rng.choice([1, 2, 3, 4, 5, num, 15, 16])
        iw = rng.choice([0, 1, 2, 5, 3]) if depth < 2 else rng.choice([0, 1, 2, 5])
        if iw == 3:
            body += gen_group(rng, inum, depth + 1)
            continue
        body += enc_varint((inum << 3) | iw)
        if iw == 0:
            body += enc_varint(rng.choice([0, 1, 150, (1 << 64) - 1, rng.getrandbits(20)]))
        elif iw == 1:
            body += bytes(rng.getrandbits(8) for _ in range(8))
        elif iw == 5:
            body += bytes(rng.getrandbits(8) for _ in range(4))
        else:
            pl = bytes(rng.getrandbits(8) for _ in range(rng.choice([0, 1, 4])))
            body += enc_varint(len(pl)) + pl
    return enc_varint((num << 3) | 3) + bytes(body) + enc_varint((num << 3) | 4)


def gen_payload(rng, wt, num):
    if wt == 0:
        return enc_varint(rng.choice([0, 1, 2, 127, 128, 300, (1 << 32) - 1, (1 << 63), (1 << 64) - 1, rng.getrandbits(33)]))
    if wt == 1:
        return bytes(rng.getrandbits(8) for _ in range(8))
    if wt == 5:
        return bytes(rng.getrandbits(8) for _ in range(4))
    if wt == 2:
        pl = rng.choice([b"", b"\x01", b"ab", b"\x08\x01", b"\xff", bytes(rng.getrandbits(8) for _ in range(rng.randint(1, 9)))])
        return enc_varint(len(pl)) + pl
    raise ValueError(wt)


def mismatching_record(rng, f):
    """a complete record carrying field f's number with a wire type f's declared type cannot have"""
    wts = [w for w in (0, 1, 2, 5) if not fits(f, w)]
    wt = rng.choice(wts + [3])
    if wt == 3:
        return gen_group(rng, f.number)
    return enc_varint((f.number << 3) | wt) + gen_payload(rng, wt, f.number)


def variants(schema, ci, bs, rng, budget, thorough):
    """[(fault class, bytes)] for one valid encoding"""
    c = schema.classes[ci]
    out = [("valid", bs)]
    n = len(bs)
    try:
        spans = record_spans(bs)
    except wiregen.WireError:
        spans = []
    # --- truncation: every cut point (exhaustive up to the budget)
    if n <= budget:
        cuts = range(n)
    else:
        must = set()
        for (a, b, *_r) in spans:
            must.update(x for x in (a, a + 1, b - 1) if 0 <= x < n)
        rest = [k for k in range(n) if k not in must]
        cuts = sorted(must | set(rng.sample(rest, min(len(rest), max(0, budget - len(must))))))
    bounds = {a for (a, *_r) in spans}
    for k in cuts:
        out.append(("truncate-at-boundary" if k in bounds else "truncate-in-record", bs[:k]))
    # --- wire-type substitution: all 8 on every top-level record (and first nested level)
    poss = tag_and_length_positions(bs, spans, schema, c)
    first_tag_bytes = [a for (a, *_r) in spans]
    nested_first = []
    seen_prev = None
    for kind, p in poss:
        if kind == "ntag" and seen_prev != ("ntag", p - 1):
            nested_first.append(p)
        seen_prev = (kind, p)
    for p in first_tag_bytes + (nested_first if thorough else nested_first[:6]):
        for wt in range(8):
            b = bytearray(bs)
            b[p] = (b[p] & 0xF8) | wt
            if bytes(b) != bs:
                out.append(("wiretype-subst" if p in bounds else "wiretype-subst-nested", bytes(b)))
    # --- single-byte corruption of every tag and length byte
    for kind, p in poss:
        vals = {0x00, 0x80, 0xFF, bs[p] ^ 0x80, bs[p] ^ (1 << rng.randrange(7)), (bs[p] + 1) & 0xFF, (bs[p] - 1) & 0xFF}
        if thorough:
            vals |= {bs[p] ^ (1 << k) for k in range(8)}
        if kind in ("tag", "ntag"):
            vals |= {bs[p] & 0x07, (bs[p] & 0x87)}     # field number 0 (single-byte tags)
        for v in sorted(vals):
            if v != bs[p]:
                b = bytearray(bs)
                b[p] = v
                out.append((f"corrupt-{kind}", bytes(b)))
    # --- a record that does not fit / a group, spliced at a record boundary
    cutpoints = [a for (a, *_r) in spans] + [n]
    if c.fields:
        for _ in range(3 if not thorough else 8):
            f = rng.choice(c.fields)
            r = mismatching_record(rng, f)
            at = rng.choice(cutpoints)
            out.append(("group-spliced" if wiregen.read_varint(r, 0)[0] & 7 == 3 else "mismatch-spliced", bs[:at] + r + bs[at:]))
    # --- a packed chunk of a repeated varint-kind field with an element of more than 10 bytes (the limit every other varint has);
    #     the 10-byte neighbour (valid) goes with it
    pk = [f for f in c.fields if f.card == "repeated" and WT_OF.get(f.proto_type) == 0]
    for f in (pk if thorough else pk[:3]):
        at = rng.choice(cutpoints)
        for extra, label in ((rng.choice([1, 2, 7]), "packed-element-overlong"), (0, "valid")):
            pad = rng.choice([0x80, 0xFF])
            el = bytes([pad] * (9 + extra)) + bytes([rng.choice([0x00, 0x01])])
            good = enc_varint(rng.choice([0, 1, 7, 300]))
            body = rng.choice([el, good + el, el + good])
            out.append((label, bs[:at] + enc_varint((f.number << 3) | 2) + enc_varint(len(body)) + body + bs[at:]))
    for _ in range(2 if not thorough else 5):
        num = rng.choice([f.number for f in c.fields] + [3, 9, 4000]) if c.fields else 3
        at = rng.choice(cutpoints)
        out.append(("group-spliced", bs[:at] + gen_group(rng, num) + bs[at:]))
        # unmatched end-group / group left open / end tag of another number
        g = gen_group(rng, num)
        out.append(("group-unterminated", bs[:at] + g[:-len(enc_varint((num << 3) | 4))] + bs[at:]))
        out.append(("endgroup-unmatched", bs[:at] + enc_varint((num << 3) | 4) + bs[at:]))
        out.append(("endgroup-wrong-number", bs[:at] + g[:-len(enc_varint((num << 3) | 4))] + enc_varint(((num + 1) << 3) | 4) + bs[at:]))
    return out


def random_bytes(rng, c):
    r = rng.random()
    if r < 0.35 or not c.fields:
        return bytes(rng.getrandbits(8) for _ in range(rng.randint(0, 14)))
    out = bytearray()
    for _ in range(rng.randint(1, 4)):
        f = rng.choice(c.fields)
        wt = rng.randrange(8) if rng.random() < 0.5 else WT_OF[f.proto_type]
        num = f.number if rng.random() < 0.85 else rng.choice([0, 0, 1, 7, 100])
        out += enc_varint((num << 3) | wt)
        if wt in (0, 1, 2, 5):
            pl = gen_payload(rng, wt, num)
            out += pl if rng.random() < 0.8 else pl[:rng.randint(0, len(pl))]
        elif wt == 3 and rng.random() < 0.5:
            out += gen_group(rng, num)[len(enc_varint((num << 3) | 3)):]
    if rng.random() < 0.2:
        out += bytes(rng.getrandbits(8) for _ in range(rng.randint(1, 4)))
    return bytes(out)


# --------------------------------------------------------------------------------------
# the regression corpus: the six former defects (DESIGN §4 C17 "already visible", F5) + their neighbours
# --------------------------------------------------------------------------------------
def regression_cases(schema):
    """[(label, class index, bytes, expectation)] over the matrix schema; expectation: 'raise' | 'unknown' (whole input ends up in
    _unknown_fields, no field set) | None"""
    idx = {c.name: i for i, c in enumerate(schema.classes)}
    ki, kp = idx["Inner"], idx["KPlain"]
    out = []
    # 1. wire types 3/4/6/7 on a known field used to set it to None
    for wt, exp in ((3, "raise"), (4, "raise"), (6, "raise"), (7, "raise")):
        out.append((f"wt{wt}-on-known-field", ki, bytes([(1 << 3) | wt]), exp))
        out.append((f"wt{wt}-on-known-field-then-data", ki, bytes([(1 << 3) | wt, 0x01]), exp))
    out.append(("group-on-known-field-complete", ki, bytes([0x0b, 0x0c]), "unknown"))
    # 2. field number 0 used to be stored as unknown
    out.append(("field-0-varint", ki, bytes([0x00, 0x01]), "raise"))
    out.append(("field-0-len", ki, bytes([0x02, 0x01, 0x41]), "raise"))
    out.append(("field-0-after-valid", ki, bytes([0x08, 0x05, 0x00, 0x00]), "raise"))
    # 3. a known int field receiving a length-delimited record used to become a list
    out.append(("int-field-gets-len", ki, bytes([0x0a, 0x02, 0x01, 0x02]), "unknown"))
    out.append(("optional-int-field-gets-len", ki, bytes([0x22, 0x01, 0x05]), "unknown"))
    # 4. a string / message field receiving a varint used to become an int
    out.append(("string-field-gets-varint", ki, bytes([0x10, 0x07]), "unknown"))
    out.append(("message-field-gets-varint", ki, bytes([0x18, 0x07]), "unknown"))
    out.append(("string-field-gets-fixed32", ki, bytes([0x15, 1, 2, 3, 4]), "unknown"))
    out.append(("int-field-gets-fixed64", ki, bytes([0x09, 1, 2, 3, 4, 5, 6, 7, 8]), "unknown"))
    # 5. a truncated length-delimited / fixed payload used to be accepted short
    out.append(("len-payload-short", ki, bytes([0x12, 0x05, 0x41, 0x42]), "raise"))
    out.append(("len-payload-missing", ki, bytes([0x12, 0x05]), "raise"))
    out.append(("fixed64-short-unknown-field", ki, bytes([0x39, 1, 2, 3]), "raise"))
    out.append(("fixed32-short-unknown-field", ki, bytes([0x3d, 1, 2]), "raise"))
    out.append(("nested-len-longer-than-outer", ki, bytes([0x1a, 0x03, 0x12, 0x05, 0x41]), "raise"))
    # 6. a tag cut in the middle used to be a clean EOF
    out.append(("tag-cut", ki, bytes([0x08, 0x01, 0x80]), "raise"))
    out.append(("tag-cut-only", ki, bytes([0x80]), "raise"))
    out.append(("varint-payload-cut", ki, bytes([0x08, 0x80]), "raise"))
    out.append(("varint-payload-missing", ki, bytes([0x08]), "raise"))
    # 7. a group's inner fields used to overwrite the enclosing message's fields
    out.append(("group-inner-overwrites", ki, bytes([0x08, 0x05, 0x3b, 0x08, 0x09, 0x12, 0x01, 0x5a, 0x3c]), None))
    out.append(("group-inner-overwrites-known-number", ki, bytes([0x08, 0x05, 0x0b, 0x08, 0x09, 0x0c]), None))
    out.append(("group-nested", ki, bytes([0x3b, 0x43, 0x08, 0x01, 0x44, 0x3c]), "unknown"))
    out.append(("group-end-mismatch", ki, bytes([0x3b, 0x44]), "raise"))
    out.append(("group-eof", ki, bytes([0x3b, 0x08, 0x01]), "raise"))
    out.append(("eleven-byte-varint", ki, bytes([0x08] + [0x80] * 10 + [0x01]), "raise"))
    # the same shapes on the all-kinds class
    c = schema.classes[kp]
    for f in c.fields:
        for wt in (0, 1, 2, 5):
            if not fits(f, wt):
                pl = {0: b"\x07", 1: bytes(8), 5: bytes(4), 2: b"\x02\x08\x01"}[wt]
                out.append((f"mismatch-{f.elem.pt}-{f.elem.kind}-wt{wt}", kp, enc_varint((f.number << 3) | wt) + pl, "unknown"))
    return out


# --------------------------------------------------------------------------------------
# reference decoder (google.protobuf), for the recorded accept/reject agreement
# --------------------------------------------------------------------------------------
def build_reference(schema, tag):
    from google.protobuf import descriptor_pb2, descriptor_pool, message_factory
    from google.protobuf import timestamp_pb2, duration_pb2, wrappers_pb2
    T = descriptor_pb2.FieldDescriptorProto
    pool = descriptor_pool.DescriptorPool()
    for mod in (timestamp_pb2, duration_pb2, wrappers_pb2):
        pool.Add(descriptor_pb2.FileDescriptorProto.FromString(mod.DESCRIPTOR.serialized_pb))
    pkg = f"c17ref{tag}"
    fdp = descriptor_pb2.FileDescriptorProto(name=f"{pkg}.proto", package=pkg, syntax="proto3")
    fdp.dependency.extend(["google/protobuf/timestamp.proto", "google/protobuf/duration.proto", "google/protobuf/wrappers.proto"])
    for i, members in enumerate(schema.enums):
        e = fdp.enum_type.add(name=f"E{i}")
        e.options.allow_alias = True
        for n, v in members:
            e.value.add(name=f"E{i}_{n}", number=v)
        if len({v for _, v in members}) == len(members):
            e.options.ClearField("allow_alias")
    wrap = {"bool": "BoolValue", "bytes": "BytesValue", "double": "DoubleValue", "float": "FloatValue", "int32": "Int32Value",
            "int64": "Int64Value", "string": "StringValue", "uint32": "UInt32Value", "uint64": "UInt64Value"}

    def set_type(fd, e):
        if e.kind == "scalar":
            fd.type = getattr(T, "TYPE_" + e.pt.upper())
        elif e.kind == "enum":
            fd.type = T.TYPE_ENUM
            fd.type_name = f".{pkg}.E{e.ref}"
        elif e.kind == "msg":
            fd.type = T.TYPE_MESSAGE
            fd.type_name = f".{pkg}.{schema.classes[e.ref].name}"
        elif e.kind == "datetime":
            fd.type = T.TYPE_MESSAGE
            fd.type_name = ".google.protobuf.Timestamp"
        else:
            fd.type = T.TYPE_MESSAGE
            fd.type_name = ".google.protobuf.Duration"

    for c in schema.classes:
        m = fdp.message_type.add(name=c.name)
        used = sorted({f.group for f in c.fields if f.group is not None})
        gidx = {g: k for k, g in enumerate(used)}
        for g in used:
            m.oneof_decl.add(name=f"g{g}")
        nsyn = 0
        for f in c.fields:
            fd = m.field.add(name=f.name, number=f.number, label=T.LABEL_OPTIONAL)
            if f.card == "wrapper":
                fd.type = T.TYPE_MESSAGE
                fd.type_name = ".google.protobuf." + wrap[f.elem.pt]
            elif f.card == "map":
                en = m.nested_type.add(name="".join(p.capitalize() for p in f.name.split("_")) + "Entry")
                en.options.map_entry = True
                set_type(en.field.add(name="key", number=1, label=T.LABEL_OPTIONAL), f.key)
                set_type(en.field.add(name="value", number=2, label=T.LABEL_OPTIONAL), f.elem)
                fd.type = T.TYPE_MESSAGE
                fd.type_name = f".{pkg}.{c.name}.{en.name}"
                fd.label = T.LABEL_REPEATED
            else:
                set_type(fd, f.elem)
                if f.card == "repeated":
                    fd.label = T.LABEL_REPEATED
                elif f.card == "optional":
                    fd.proto3_optional = True
                    m.oneof_decl.add(name=f"_{f.name}")
                    fd.oneof_index = len(used) + nsyn
                    nsyn += 1
            if f.group is not None:
                fd.oneof_index = gidx[f.group]
    pool.Add(fdp)
    return [message_factory.GetMessageClass(pool.FindMessageTypeByName(f"{pkg}.{c.name}")) for c in schema.classes]


def ref_accepts(Ref, bs):
    try:
        Ref.FromString(bs)
        return True
    except Exception:  # noqa  (DecodeError)
        return False


# --------------------------------------------------------------------------------------
# gap stage: the specification-side vocabulary of the sixth batch (Model/C17GapDefs.v kept / unk_of, evaluated through
# Model/C17GapCv.v whose unk_fn is PROVED to compute unk_of: C17_unk_fn_sound) and the oracles of C17_unknown_exact[_into],
# C17_entry_points_agree / C17_delimited_accept_iff and C17_bad_tag_class / C17_cut_tag_class / C17_tag_error_class
# --------------------------------------------------------------------------------------
# the property text: "a record whose wire type cannot belong to its field's declared type ... is kept verbatim as unknown";
# the protobuf encoding guide's table of wire types per declared type, written out here a second time on purpose
KEEP_VARINT = {"int32", "int64", "uint32", "uint64", "sint32", "sint64", "bool", "enum"}
KEEP_I32 = {"fixed32", "sfixed32", "float"}
KEEP_I64 = {"fixed64", "sfixed64", "double"}
KEEP_LEN = {"string", "bytes", "message", "map"}


def py_keeps(c, num, wt):
    """independent reading of 'class c keeps a complete record (num, wt) verbatim': its number is declared by no field, or it is a
    group, or its wire type is not one the declared type can arrive with (the natural one; LEN for a repeated packable scalar)"""
    f = None
    for g in c.fields:
        if g.number == num:
            f = g
    if f is None or wt == 3:
        return True
    pt = f.proto_type
    if pt in KEEP_VARINT:
        natural = 0
    elif pt in KEEP_I32:
        natural = 5
    elif pt in KEEP_I64:
        natural = 1
    elif pt in KEEP_LEN:
        natural = 2
    else:
        raise ValueError(f"declared type {pt!r} not in the encoding guide's table")
    if wt == natural:
        return False
    if wt == 2 and f.card == "repeated":       # natural != 2 here: a packed run
        return False
    return True


def delim_prefix(n, pad):
    """a VarintRep of n: the canonical one (pad = 0) or one padded with `pad` redundant groups (still <= 10 bytes)"""
    pre = enc_varint(n)
    if pad and len(pre) + pad <= 10:
        pre = pre[:-1] + bytes([pre[-1] | 0x80]) + b"\x80" * (pad - 1) + b"\x00"
    return pre


def run_delim(c, bs, pad, rest):
    import betterproto as bp
    frame = delim_prefix(len(bs), pad) + bs + rest
    st = io.BytesIO(frame)
    try:
        m = c.py().load(st, bp.SIZE_DELIMITED)
        return frame, ("ok", m, st.read())
    except RecursionError as e:
        return frame, ("recursion", e, None)
    except Exception as e:  # noqa
        return frame, ("raise", e, None)


def unknown_number(c, rng=None):
    used = {f.number for f in c.fields}
    cands = [n for n in (max(used | {0}) + 1, 15, 16, 2047, 2048, 4001, 536870911) if n not in used]
    return cands[0] if rng is None else rng.choice(cands)


def gen_rest(rng):
    """what follows the frame in the stream: nothing, complete records, incomplete bytes, another frame, garbage"""
    r = rng.random()
    if r < 0.15:
        return b""
    if r < 0.35:
        wt = rng.choice([0, 1, 2, 5])
        return enc_varint((rng.choice([1, 2, 3, 15, 16, 300]) << 3) | wt) + gen_payload(rng, wt, 1)
    if r < 0.5:
        wt = rng.choice([0, 1, 2, 5])
        full = enc_varint((rng.choice([1, 2, 3, 16]) << 3) | wt) + gen_payload(rng, wt, 1)
        return full[:rng.randint(1, max(1, len(full) - 1))]
    if r < 0.6:
        return rng.choice([b"\x80", b"\xff", b"\x00", b"\x0c", b"\x07", b"\xff" * 11, b"\x80" * 10])
    if r < 0.7:
        return b"\x02\x08\x01" + rng.choice([b"", b"\x00", b"\x05\x08"])
    return bytes(rng.getrandbits(8) for _ in range(rng.randint(1, 7)))


def gen_old(rng, c):
    """records every one of which the class keeps (unknown number / misfit / group): the unknown bytes a message already holds"""
    out = b""
    for _ in range(rng.randint(1, 3)):
        if c.fields and rng.random() < 0.5:
            out += mismatching_record(rng, rng.choice(c.fields))
        else:
            num = unknown_number(c, rng)
            wt = rng.choice([0, 1, 2, 5, 3])
            out += gen_group(rng, num) if wt == 3 else enc_varint((num << 3) | wt) + gen_payload(rng, wt, num)
    return out


def default_aux(c):
    return (0, b"\x08\x80", enc_varint((unknown_number(c) << 3) | 0) + b"\x01")


def aux_from_spec(d):
    return (d["prefix_padding"], bytes.fromhex(d["rest_after_frame"]), bytes.fromhex(d["unknown_bytes_already_held"]))


# --------------------------------------------------------------------------------------
# one input through the implementation + the oracle
# --------------------------------------------------------------------------------------
def fail_input(schema, si, ci, fault, bs, aux=None):
    d = {"schema_index": si, "schema": schema_spec(schema), "class_index": ci, "class": schema.classes[ci].name,
         "fault": fault, "bytes": bs.hex()}
    if aux is not None:
        d["aux"] = {"prefix_padding": aux[0], "rest_after_frame": aux[1].hex(), "unknown_bytes_already_held": aux[2].hex()}
    return d


def evaluate(schema, ci, fault, bs, expectation=None, Ref=None, aux=None):
    """one input through the three entry points and the oracle.  Pure: returns a dict
       result: None | 'raise' | (snapshot literal, bytes(result) | None);  summary;  problems [(cls, what)];  count key;
       nontrivial;  ref: True/False/None (reference accepted)"""
    import betterproto as bp
    c = schema.classes[ci]
    outs = run_impl(schema, c, bs)
    kinds = [k for k, _ in outs]
    res = {"result": None, "summary": "", "problems": [], "count": None, "nontrivial": False, "ref": None,
           "gc": {}, "unk": None, "exp_unk": None, "nws": [], "delim": None, "into": None}
    gc = res["gc"]
    if Ref is not None:
        res["ref"] = ref_accepts(Ref, bs)
    if "recursion" in kinds:
        res["summary"] = "recursion"
        res["count"] = "recursion-limit (not modelled, skipped)"
        return res
    if len(set(kinds)) != 1:
        res["problems"].append(("entry-points-disagree", f"parse / FromString / load disagree on raising: {kinds}"))
        res["summary"] = "disagree"
        return res
    # ---- gap stage (2): the fourth entry point, Cls().load(BytesIO(varint(len(bs)) ++ bs ++ rest), SIZE_DELIMITED)
    pad, rest, old = aux if aux is not None else default_aux(c)
    frame, dout = run_delim(c, bs, pad, rest)
    if dout[0] == "recursion":
        gc["gap:entry_points: delimited load hit the recursion limit (skipped)"] = 1
        dout = None
    elif (dout[0] == "ok") != (kinds[0] == "ok"):
        res["problems"].append(("entry-points-disagree",
                                f"parse / FromString / load {'accept' if kinds[0] == 'ok' else 'reject (' + type(outs[0][1]).__name__ + ')'} the input but "
                                f"load(SIZE_DELIMITED) on prefix ++ input ++ {rest.hex() or '(nothing)'} "
                                f"{'accepts' if dout[0] == 'ok' else 'rejects (' + type(dout[1]).__name__ + ': ' + str(dout[1])[:80] + ')'}"))
        dout = None
    sclass, sinfo = spec_class(bs)
    res["count"] = f"{fault.split(':')[0]}|spec-{sclass}|impl-{'ok' if kinds[0] == 'ok' else 'raise'}"
    if kinds[0] == "raise":
        if dout is not None:
            names = [type(e).__name__ for _, e in outs]
            gc["gap:entry_points: all four reject"] = 1
            if len(set(names)) != 1:
                gc["gap:entry_points: parse / FromString / load raise different classes"] = 1
            if lib.exc_kind(outs[0][1]) != lib.exc_kind(dout[1]):
                gc[f"gap:entry_points: rejected, error KINDS differ at the model's granularity (parse {lib.exc_kind(outs[0][1])}, "
                   f"delimited {lib.exc_kind(dout[1])}) - C17_entry_points_err_class_refuted"] = 1
            if type(outs[0][1]) is type(dout[1]):
                gc["gap:entry_points: rejected, delimited load raises the SAME class as parse"] = 1
            else:
                gc[f"gap:entry_points: rejected, classes DIFFER (parse {names[0]}, delimited {type(dout[1]).__name__})"] = 1
            res["delim"] = (frame, "raise")
        if expectation == "unknown":
            res["problems"].append(("rejects-wellformed", f"well-formed input rejected: {type(outs[0][1]).__name__}: {outs[0][1]}"))
        res["result"] = res["summary"] = "raise"
        return res
    # ---- returned
    m = outs[0][1]
    problems = res["problems"]
    try:
        snaps = [snapshot(schema, x) for _, x in outs]
    except msggen.Unmodellable as e:
        problems.append(("ill-typed-result", f"result cannot be snapshotted: {e}"))
        tp = []
        try:
            obj_typed(schema, ci, m, c.name, tp)
        except Exception:  # noqa
            pass
        problems.extend(("ill-typed-result", t) for t in tp[:3])
        res["summary"] = "unmodellable"
        return res
    if len(set(snaps)) != 1:
        problems.append(("entry-points-disagree", "parse / FromString / load return different messages"))
    if dout is not None:
        try:
            sd = snapshot(schema, dout[1])
        except msggen.Unmodellable:
            sd = None
        okd = True
        if sd != snaps[0]:
            okd = False
            problems.append(("entry-points-disagree", f"load(SIZE_DELIMITED) on prefix ++ input ++ {rest.hex() or '(nothing)'} returns a different "
                             f"message than parse: {dout[1]!r:.200} vs {m!r:.200}"))
        if dout[2] != rest:
            okd = False
            problems.append(("entry-points-disagree", f"load(SIZE_DELIMITED) left {dout[2].hex() or '(nothing)'} unread; the bytes after the frame "
                             f"are {rest.hex() or '(nothing)'}"))
        if okd:
            gc["gap:entry_points: all four accept, same message, exactly the rest left unread"] = 1
        if sd is not None:
            res["delim"] = (frame, (sd, dout[2]))
    if sclass == "invalid":
        problems.append(("accepts-malformed", f"input is not a sequence of complete records ({sinfo}) but parse() returned {m!r:.200}"))
    if expectation == "raise" and sclass != "invalid":
        problems.append(("accepts-malformed", f"expected rejection, parse() returned {m!r:.200}"))
    # typing of every field
    tp = []
    try:
        obj_typed(schema, ci, m, c.name, tp)
    except Exception as e:  # noqa
        tp.append(f"typing walk raised {type(e).__name__}: {e}")
    for t in tp[:3]:
        problems.append(("ill-typed-result", t))
    # encodable again (not attempted on an ill-typed result: bytes() of a message whose message-typed field
    # holds an int n would allocate n bytes)
    again = None
    if not tp:
        try:
            again = bytes(outs[1][1])
        except Exception as e:  # noqa
            problems.append(("result-not-encodable", f"bytes(result) raises {type(e).__name__}: {e}"))
    # isolation: records that do not belong to a declared field (unknown number, non-fitting wire type, groups)
    # are kept verbatim, in order, and removing them changes no attribute
    if sclass == "valid":
        by_num = {f.number: f for f in c.fields}
        # a packed payload that is not a whole number of elements (a fixed-width element cut in the middle, a varint
        # element without its last byte) is a field cut in the middle: it must be rejected, not decoded into a shorter list
        for (a, b, num, wt, ps, _lp) in sinfo:
            f = by_num.get(num)
            if f is not None and wt == 2 and f.card == "repeated" and f.proto_type in WT_OF and WT_OF[f.proto_type] != 2:
                try:
                    wiregen.split_packed(bs[ps:b], f.proto_type)
                except (wiregen.WireError, IndexError) as e:
                    problems.append(("accepts-malformed", f"packed payload {bs[ps:b].hex()} of repeated {f.proto_type} field {f.name} is not a whole "
                                     f"number of elements ({e}) but parse() returned {m!r:.200}"))
        foreign =[(a, b) for (a, b, num, wt, *_r) in sinfo if num not in by_num or not fits(by_num[num], wt)]
        exp_unknown = b"".join(bs[a:b] for a, b in foreign)
        unk = bytes(object.__getattribute__(m, "_unknown_fields"))
        if unk != exp_unknown:
            problems.append(("foreign-record-not-isolated",
                             f"_unknown_fields is {unk.hex()} but the non-fitting / unknown / group records are {exp_unknown.hex()}"))
        # ---- gap stage (1): C17_unknown_exact / C17_unknown_exact_into on the implementation, against the reading of
        #      "the class keeps this record" written from the property text (py_keeps); the values go back to the main
        #      process, which evaluates the specification's kept / unk_of on the same input inside Coq
        exp2 = b"".join(bs[a:b] for (a, b, num, wt, *_r) in sinfo if py_keeps(c, num, wt))
        res["unk"], res["exp_unk"] = unk, exp2
        res["nws"] = sorted({(num << 3) | wt for (_a, _b, num, wt, *_r) in sinfo})
        gc["gap:unknown_exact: accepted inputs whose _unknown_fields were compared with the property-text reading"] = 1
        if exp2:
            gc["gap:unknown_exact: ... of which keep at least one record"] = 1
        if unk != exp2:
            problems.append(("foreign-record-not-isolated",
                             f"_unknown_fields is {unk.hex()} but the records the class keeps (unknown number / wire type not fitting the "
                             f"declared type / group) are {exp2.hex()}"))
        try:
            m0 = c.py().parse(old)
            old_unk = bytes(object.__getattribute__(m0, "_unknown_fields"))
            if old_unk != old:
                problems.append(("foreign-record-not-isolated", f"records {old.hex()} (all foreign to the class) parsed alone leave "
                                 f"_unknown_fields = {old_unk.hex()}"))
            m0.parse(bs)
            into_unk = bytes(object.__getattribute__(m0, "_unknown_fields"))
            gc["gap:unknown_exact_into: parse into a message already holding unknown bytes, compared"] = 1
            if into_unk != old_unk + exp2:
                problems.append(("foreign-record-not-isolated",
                                 f"parse into a message already holding the unknown bytes {old_unk.hex()}: _unknown_fields is {into_unk.hex()}, "
                                 f"expected old ++ kept records = {(old_unk + exp2).hex()}"))
            res["into"] = (old, old_unk, into_unk)
        except RecursionError:
            pass
        except Exception as e:  # noqa
            problems.append(("foreign-record-not-isolated", f"the input is accepted by Cls().parse but rejected when parsed into a message "
                             f"already holding the unknown bytes {old.hex()}: {type(e).__name__}: {e}"))
        if foreign:
            keep = bytearray()
            last = 0
            for a, b in foreign:
                keep += bs[last:a]
                last = b
            keep += bs[last:]
            try:
                m2 = c.py().parse(bytes(keep))

                def attrs(x):
                    return [repr(object.__getattribute__(x, f.name)) for f in c.fields] + \
                           [repr(sorted(object.__getattribute__(x, "_group_current").items(), key=str))]
                a1, a2 = attrs(m), attrs(m2)
                if a1 != a2 and "nan" not in "".join(a1):
                    problems.append(("foreign-record-not-isolated",
                                     "a non-fitting / group record changed a known field: with it "
                                     f"{a1!r:.300}, without it {a2!r:.300}"))
            except Exception as e:  # noqa
                problems.append(("foreign-record-not-isolated", f"input without its foreign records is rejected: {type(e).__name__}: {e}"))
        if expectation == "unknown":
            vals = [object.__getattribute__(m, f.name) for f in c.fields]
            if unk != bs or any(v is not bp.PLACEHOLDER and v is not None for v in vals):
                problems.append(("foreign-record-not-isolated",
                                 f"expected the whole input in _unknown_fields and no field set; got {m!r:.200} unknown={unk.hex()}"))
        res["nontrivial"] = bool(sinfo)
    res["result"] = (snaps[0], again)
    res["summary"] = "ok"
    return res


_G = {}


def _worker(span):
    lo, hi = span
    try:  # a broken decoder must not be able to exhaust the machine's memory through the harness
        import resource
        resource.setrlimit(resource.RLIMIT_AS, (4 << 30, 4 << 30))
    except Exception:  # noqa
        pass
    schemas, cases, refs, auxs = _G["schemas"], _G["cases"], _G["refs"], _G.get("auxs")
    out = []
    for i in range(lo, hi):
        si, ci, fault, bs, exp = cases[i]
        try:
            R = refs.get(si)
            out.append(evaluate(schemas[si], ci, fault, bs, exp, R[ci] if R else None, auxs[i] if auxs else None))
        except Exception as e:  # noqa
            out.append({"result": None, "summary": "harness", "count": None, "nontrivial": False, "ref": None,
                        "gc": {}, "unk": None, "exp_unk": None, "nws": [], "delim": None, "into": None,
                        "problems": [("harness", f"harness could not evaluate the input: {type(e).__name__}: {e}")]})
    return out


def evaluate_all(ctx, schemas, cases, refs, auxs=None):
    import multiprocessing as mp
    _G.update(schemas=schemas, cases=cases, refs=refs, auxs=auxs)
    n = len(cases)
    step = max(50, n // (lib.JOBS * 6) + 1)
    spans = [(lo, min(n, lo + step)) for lo in range(0, n, step)]
    if n < 400 or os.environ.get("VERIF_C17_SERIAL"):
        chunks = [_worker(sp) for sp in spans]
    else:
        with mp.get_context("fork").Pool(min(lib.JOBS, 12)) as pool:
            chunks = pool.map(_worker, spans, chunksize=1)
    return [r for ch in chunks for r in ch]


# --------------------------------------------------------------------------------------------------------------------
# Source-translation tie (second, tighter tie for the record reader _read_exactly / _load_field; NON-ALARMING on its own;
# same contract as the stage of harness/props/c16.py).
#   harness/gen_c17_src.py translates the CURRENT source text of _read_exactly / _load_field / ParsedField into
#   coq/gen/C17Src.v; Proofs/C17Src.v proves the translation equal to Model/Decode.read_exactly / load_field;
#   Properties/C17Src.v states it.  These files are NOT among the targets of the main build (EXTRA_TARGETS): a
#   behaviour-preserving rewrite of the Python functions may make the translator reject or the proof scripts fail while
#   C17 still holds.  So this stage only RECORDS whether the tie held (evidence: input_distribution "source_tie:*",
#   coverage.source_translation_tie, an assumptions line, the theorems + Print Assumptions verdicts when it held) and NEVER
#   calls ctx.fail: when it does not hold, the sampled correspondence and the oracles below decide, as before.
# --------------------------------------------------------------------------------------------------------------------
SRC_TIE_PARTS = [
    ("reader", "C17Src.v", "_read_exactly / _load_field (wire types 0, 1, 2, 5, the group loop with nested groups, the errors) and ParsedField"),
]


class _AuditSink:
    """lib.audit stores its result in `.proof` of whatever it is given; keeps the main ctx.proof untouched"""
    proof = None


def source_tie_stage(ctx):
    import re

    report = {"translator": None, "parts": {}}
    ctx.cov["source_translation_tie"] = report
    lines = []
    gen = os.path.join(lib.VERIF, "harness", "gen_c17_src.py")
    try:
        # (a) the translator's verdict on the current source (dry run: writes nothing; setup.sh below regenerates
        #     gen/C17Src.v under the build lock) and its own regression snippets: a translator that fails them ties nothing
        rc, out = lib.run([lib.PY, gen, "--dry-run"], timeout=300, cwd=lib.VERIF)
        src, sout = lib.run([lib.PY, gen, "--selftest"], timeout=300, cwd=lib.VERIF)
        report["translator_selftest"] = sout.strip().splitlines()[-1][:200] if sout.strip() else "no output"
        ctx.count("source_tie:translator_selftest_ok", 1 if src == 0 else 0)
        verdicts = {}
        for l in ([] if src != 0 else out.splitlines()):
            m = re.match(r"C17SRC-TRANSLATION-(OK|REJECTED): (\w+)(?:: (.*))?$", l)
            if m:
                verdicts[m.group(2)] = (m.group(1) == "OK", m.group(3) or "")
        from_source = "C17SRC-VARINT-FROM-SOURCE: yes" in out
        report["translator"] = {k: {"accepted": ok, "message": why or "accepted"} for k, (ok, why) in verdicts.items()}
        for key, prop_file, what in SRC_TIE_PARTS:
            part = {"what": what, "held": False, "reason": None, "theorems": []}
            report["parts"][key] = part
            ok, why = verdicts.get(key, (False, "translator self-test failed" if src != 0 else "no verdict from the translator: " + out.strip()[-300:]))
            ctx.count(f"source_tie:{key}_translated", 1 if ok else 0)
            if not ok:
                part["reason"] = "translator rejected the current source (construct outside its subset): " + why
            else:
                target = "Properties/" + prop_file + "o"
                brc, bout = lib.run([os.path.join(lib.VERIF, "setup.sh"), target], timeout=1500, cwd=lib.VERIF)
                part["load_varint"] = ("gen/C16Src.v (translated source, equation from Proofs/C16Src.v)" if from_source
                                       else "model (the C16 translator rejects its source)")
                force = {}
                if brc != 0 and from_source:
                    # the C16 translation of load_varint exists but its proofs do not apply to this tree (a harmless rewrite of
                    # load_varint): retry with the model's load_varint standing in, so that _load_field can still be tied
                    force = {"C17SRC_MODEL_VARINT": "1"}
                    brc2, bout2 = lib.run([os.path.join(lib.VERIF, "setup.sh"), target], timeout=1500, cwd=lib.VERIF, env=force)
                    if brc2 == 0:
                        brc, bout = brc2, bout2
                        part["load_varint"] = "model (Proofs/C16Src.v does not compile on this tree)"
                        from_source = False
                if brc != 0:
                    err = re.findall(r'File "[^"]*", line \d+[^\n]*\n(?:[^\n]*\n){0,6}', bout)
                    part["reason"] = ("gen/C17Src.v or its proofs do not compile against the current source (the proof scripts are tied "
                                      "to the shape of the code): " + (err[0] if err else bout[-600:]).strip()[:900])
                else:
                    sink = _AuditSink()
                    pr = lib.audit(sink, prop_file)
                    part["theorems"] = pr["theorems"]
                    if pr["problems"] or pr["discharged"] != pr["obligations"] or not pr["obligations"]:
                        part["reason"] = "audit of Properties/%s: %s" % (prop_file, "; ".join(pr["problems"])[:600] or "no theorem")
                    else:
                        part["held"] = True
                        part["print_assumptions"] = "all %d theorems closed under the global context" % pr["obligations"]
                        if ctx.proof and not ctx.proof.get("problems") and ctx.build_ok:
                            ctx.proof["obligations"] += pr["obligations"]
                            ctx.proof["discharged"] += pr["discharged"]
                            ctx.proof["theorems"] = list(ctx.proof["theorems"]) + pr["theorems"]
                            ctx.proof["verdicts"] = list(ctx.proof["verdicts"]) + pr["verdicts"]
                if force:
                    # leave the generated files as an ordinary run writes them
                    lib.run([lib.PY, gen], timeout=300, cwd=lib.VERIF)
            ctx.count(f"source_tie:{key}_held", 1 if part["held"] else 0)
            ctx.count("source_tie:load_varint_from_translated_source", 1 if (part["held"] and from_source) else 0)
            lines.append(f"{key} ({what}): " + ("HELD, %d theorems of Properties/%s closed; load_varint inside it: %s"
                                                 % (len(part["theorems"]), prop_file, part.get("load_varint"))
                                                 if part["held"] else "DID NOT HOLD on this tree - " + str(part["reason"])[:400]))
    except Exception as e:  # noqa  - this stage must never decide the check
        report["stage_error"] = repr(e)[:500]
        lines.append("stage could not complete: " + repr(e)[:300])
        for key, _, _ in SRC_TIE_PARTS:
            if key not in report["parts"] or not report["parts"][key].get("held"):
                ctx.dist.setdefault(f"source_tie:{key}_held", 0)
    held_all = all(report["parts"].get(k, {}).get("held") for k, _, _ in SRC_TIE_PARTS)
    ctx.src_tie_line = ("source-translation tie (harness/gen_c17_src.py -> coq/gen/C17Src.v, proved equal to the model in Properties/C17Src.v): "
                        + "; ".join(lines)
                        + (". Where it did not hold the check FELL BACK to the sampled correspondence and the oracles (no verdict is drawn "
                           "from a failed translation or a failed equality proof)." if not held_all else ""))
    ctx.notes.append(ctx.src_tie_line)
    return report


# --------------------------------------------------------------------------------------
# gap stage, main-process part
# --------------------------------------------------------------------------------------
def tag_fault_inputs(rng, c, pre):
    """[(kind, bytes, expected exception class, theorem)] : pre (an accepted run of complete records) followed by a tag-level fault"""
    out = []
    nums = [f.number for f in c.fields] + [1, 15, 16, 2047, 2048, 536870911]
    tail = gen_rest(rng)

    def rep(nw):
        return delim_prefix(nw, rng.choice([0, 0, 1, 2]))
    # field number 0 with any wire type; wire types 4 / 6 / 7 with any number: ValueError (C17_bad_tag_class)
    wt = rng.randrange(8)
    out.append(("field-number-0", pre + rep(wt) + tail, ValueError, "C17_bad_tag_class"))
    wt = rng.choice([4, 6, 7])
    out.append((f"wire-type-{wt}", pre + rep((rng.choice(nums) << 3) | wt) + tail, ValueError, "C17_bad_tag_class"))
    # an input ending inside a tag: EOFError (C17_cut_tag_class)
    tag = rep((rng.choice(nums) << 3) | rng.randrange(8))
    if len(tag) < 2:
        tag = delim_prefix((rng.choice([16, 300, 2048, 536870911]) << 3) | rng.randrange(8), rng.choice([0, 1]))
    out.append(("tag-cut", pre + tag[:rng.randint(1, len(tag) - 1)], EOFError, "C17_cut_tag_class"))
    # a tag of more than ten bytes: ValueError (C17_tag_error_class with load_varint = Err ETooLong)
    long = bytes(0x80 | rng.getrandbits(7) for _ in range(10)) + rng.choice([b"\x01", b"\x00", b"\x7f", b"\x80\x01", b""])
    out.append(("tag-eleven-bytes" if len(long) > 10 else "tag-ten-continuation-bytes-then-eof", pre + long + (tail if len(long) > 10 else b""),
                ValueError, "C17_tag_error_class"))
    return out


def gap_stage(ctx, schemas, cases, evs, auxs, big_keys, prelude, rng):
    th = ctx.thorough
    cap_unk, cap_into, cap_delim, n_tag = (6000, 450, 500, 150) if not th else (60000, 10000, 8000, 3000)
    pairs, meta = [], []          # meta: (what, case index | None, extra)

    def cidx(ci):
        return f"{NBUILTIN + ci}%nat"
    acc = [i for i, ev in enumerate(evs) if ev.get("unk") is not None and (cases[i][0], cases[i][1], cases[i][3]) not in big_keys]
    # (1) unk_of against the real _unknown_fields (and against the property-text reading where the two differ)
    sel = acc if len(acc) <= cap_unk else sorted(rng.sample(acc, cap_unk))
    for i in sel:
        si, ci, fault, bs, _e = cases[i]
        ev = evs[i]
        pairs.append((f"cv_unk sc{si} {cidx(ci)} {lib.coq_bytes(bs)}", cb(ev["unk"])))
        meta.append(("unk", i, None))
        if ev["exp_unk"] != ev["unk"]:
            pairs.append((f"cv_unk sc{si} {cidx(ci)} {lib.coq_bytes(bs)}", cb(ev["exp_unk"])))
            meta.append(("unk-reading", i, None))
    ctx.count("gap:coq: unk_of evaluated on an accepted input and compared with the real _unknown_fields", len(sel))
    ctx.count("gap:coq: ... of which the kept bytes are non-empty", sum(1 for i in sel if evs[i]["unk"]))
    # (1) parse_into on an object already holding unknown bytes: model, specification (old ++ unk_of) and implementation
    into = [i for i in acc if evs[i].get("into")]
    into = into if len(into) <= cap_into else sorted(rng.sample(into, cap_into))
    for i in into:
        si, ci, fault, bs, _e = cases[i]
        old, old_unk, into_unk = evs[i]["into"]
        pairs.append((f"cv_into sc{si} {cidx(ci)} {lib.coq_bytes(old)} {lib.coq_bytes(bs)}", cl([cb(old_unk), cb(into_unk), lib.cbool(True)])))
        meta.append(("into", i, None))
        pairs.append((f"(match unk_of_bytes (get_class sc{si} {cidx(ci)}) {lib.coq_bytes(bs)} with Some u => CB ({lib.coq_bytes(old_unk)} ++ u) | None => CN end)",
                      cb(into_unk)))
        meta.append(("into-spec", i, None))
    ctx.count("gap:coq: parse_into (message already holding unknown bytes) and old ++ unk_of compared with the implementation", len(into))
    # (1) kept, per class: every tag value met on an accepted input + every declared number x wire types 0..5 + undeclared numbers
    by_cls = {}
    for i in acc:
        by_cls.setdefault((cases[i][0], cases[i][1]), set()).update(evs[i]["nws"])
    nk = 0
    for si, s in enumerate(schemas):
        for ci, c in enumerate(s.classes):
            nws = set(by_cls.get((si, ci), ()))
            for num in [f.number for f in c.fields] + [unknown_number(c), 536870911]:
                nws.update((num << 3) | wt for wt in range(6) if wt != 4)
            nws = sorted(nws)
            nk += len(nws)
            try:
                exp = [py_keeps(c, nw >> 3, nw & 7) for nw in nws]
            except ValueError as e:
                ctx.notes.append(f"gap: kept not compared for class {c.name}: {e}")
                continue
            pairs.append((f"cv_kept sc{si} {cidx(ci)} [{'; '.join('(%d)%%Z' % nw for nw in nws)}]", cl([lib.cbool(b) for b in exp])))
            meta.append(("kept", None, (si, ci, nws, exp)))
    ctx.count("gap:coq: kept evaluated on a (class, tag value) pair and compared with the property-text reading", nk)
    # (2) load_delimited: model against the implementation (accepted and rejected frames)
    dl = [i for i, ev in enumerate(evs) if ev.get("delim") and (cases[i][0], cases[i][1], cases[i][3]) not in big_keys]
    dl_ok = [i for i in dl if evs[i]["delim"][1] != "raise"]
    dl_no = [i for i in dl if evs[i]["delim"][1] == "raise"]
    chosen = (dl_ok if len(dl_ok) <= cap_delim // 2 else rng.sample(dl_ok, cap_delim // 2)) + \
             (dl_no if len(dl_no) <= cap_delim // 2 else rng.sample(dl_no, cap_delim // 2))
    for i in sorted(chosen):
        si, ci, fault, bs, _e = cases[i]
        frame, o = evs[i]["delim"]
        exp = "(CE EOther)" if o == "raise" else cl([f"cv_of_obj {o[0]}", cb(o[1])])
        pairs.append((f"cv_delim sc{si} {cidx(ci)} {lib.coq_bytes(frame)}", exp))
        meta.append(("delim", i, None))
    ctx.count("gap:coq: load_delimited evaluated on prefix ++ input ++ rest and compared with load(SIZE_DELIMITED)", len(chosen))
    # (2) + (1) on the implementation only: one complete record per (class, field, wire type) - kept exactly when the reading says so
    #     (C17_record_unknown_iff / C17_kept_isolated: a kept record is never rejected)
    nrec = 0
    for si, s in enumerate(schemas):
        for ci, c in enumerate(s.classes):
            for num in [f.number for f in c.fields] + [unknown_number(c)]:
                for wt in (0, 1, 2, 5, 3):
                    r = gen_group(rng, num) if wt == 3 else enc_varint((num << 3) | wt) + gen_payload(rng, wt, num)
                    try:
                        keeps = py_keeps(c, num, wt)
                    except ValueError:
                        continue
                    nrec += 1
                    try:
                        m = c.py().parse(r)
                        unk = bytes(object.__getattribute__(m, "_unknown_fields"))
                        if unk != (r if keeps else b""):
                            ctx.fail("oracle", f"single complete record {r.hex()}: the class {'keeps' if keeps else 'does not keep'} it by the property "
                                     f"text but _unknown_fields = {unk.hex() or '(empty)'}", cls="foreign-record-not-isolated",
                                     input=fail_input(s, si, ci, "single-record", r))
                    except RecursionError:
                        pass
                    except Exception as e:  # noqa
                        if keeps:
                            ctx.fail("oracle", f"single complete record {r.hex()} that the class keeps is rejected: {type(e).__name__}: {e}",
                                     cls="rejects-wellformed", input=fail_input(s, si, ci, "single-record", r))
                        else:
                            ctx.count("gap:single record of a declared field with a fitting wire type rejected (payload not valid for the type)")
    ctx.count("gap:single complete records (class x field x wire type) checked for kept <-> lands in _unknown_fields", nrec)
    # (3) exception class after an accepted run of complete records
    pres = [i for i in acc if evs[i]["summary"] == "ok" and len(cases[i][3]) <= 400]
    ntag = 0
    if pres:
        for _ in range(n_tag):
            i = rng.choice(pres)
            si, ci, _f, pre, _e = cases[i]
            c = schemas[si].classes[ci]
            for kind, bs, want, thm in tag_fault_inputs(rng, c, pre):
                outs = run_impl(schemas[si], c, bs)
                ntag += 1
                inp = fail_input(schemas[si], si, ci, "tagfault:" + kind, bs)
                bad_cls = [(how, k, v) for how, (k, v) in zip(("parse", "FromString", "load"), outs)
                           if k != "raise" or not isinstance(v, want) or (want is ValueError and isinstance(v, EOFError))]
                if bad_cls:
                    how, k, v = bad_cls[0]
                    got = f"{type(v).__name__}: {v}"[:160] if k != "ok" else f"returns {v!r:.160}"
                    ctx.fail("oracle", f"{kind} after an accepted run of complete records: {thm} says {want.__name__}; {how} gives {got}",
                             cls="tag-error-class" if k == "raise" else "accepts-malformed", input=inp)
                ctx.count(f"gap:exception class: {kind} -> {want.__name__}" + ("" if not bad_cls else " (VIOLATED)"))
                e0 = outs[0][1] if outs[0][0] == "raise" else None
                pairs.append((f"cv_err sc{si} {cidx(ci)} {lib.coq_bytes(bs)}", "CN" if e0 is None else lib.ce(lib.exc_kind(e0))))
                meta.append(("errkind", None, (inp, kind, thm, type(e0).__name__ if e0 is not None else "no exception")))
    ctx.count("gap:coq: error kind of the model's parse compared with the real exception class (EValue / ETooLong = ValueError, EEof = EOFError)", ntag)
    # ---- evaluate
    bad = lib.coq_compare(ctx, "c17gap", GAP_IMPORTS, pairs, chunk=300, prelude=prelude)
    ctx.count("gap:coq: comparisons evaluated by vm_compute", len(pairs))
    ctx.cov["disagreements_checked"] = ctx.cov.get("disagreements_checked", 0) + len(pairs)
    texts = {
        "unk": "specification unk_of (Model/C17GapDefs.v through unk_fn) and the real _unknown_fields after parse disagree",
        "unk-reading": "specification unk_of (Model/C17GapDefs.v) and the property-text reading of the kept records disagree",
        "into": "model parse_into on an object already holding unknown bytes and the implementation disagree on _unknown_fields",
        "into-spec": "old bytes ++ unk_of (C17_unknown_exact_into) and the real _unknown_fields after parsing into an existing message disagree",
        "delim": "model load_delimited and Cls().load(stream, SIZE_DELIMITED) disagree (accept / message / unread rest)",
    }
    nrep = 0
    for j in bad:
        if nrep >= 20:
            break
        nrep += 1
        what, i, extra = meta[j]
        if what in texts:
            si, ci, fault, bs, _e = cases[i]
            ctx.fail("corr", texts[what], cls=None, input=fail_input(schemas[si], si, ci, fault, bs, auxs[i]), implementation=pairs[j][1][:3000])
        elif what == "kept":
            si, ci, nws, exp = extra
            c = schemas[si].classes[ci]
            # which tag values: one more evaluation, element by element
            single = [(f"cv_kept sc{si} {cidx(ci)} [({nw})%Z]", cl([lib.cbool(b)])) for nw, b in zip(nws, exp)]
            try:
                which = [nws[k] for k in lib.coq_compare(ctx, "c17gapk", GAP_IMPORTS, single, chunk=400, prelude=prelude)]
            except RuntimeError:
                which = []
            ctx.fail("corr", "specification kept (Model/C17GapDefs.v) and the property-text reading disagree on the tag values "
                     f"{[(nw >> 3, nw & 7) for nw in which][:12]} (number, wire type) of class {c.name}", cls=None,
                     input=fail_input(schemas[si], si, ci, "kept", b"".join(enc_varint(nw) for nw in which[:4])))
        else:
            inp, kind, thm, got = extra
            ctx.fail("corr", f"model parse and implementation disagree on the error kind of a {kind} input ({thm}); implementation: {got}",
                     cls=None, input=inp, implementation=pairs[j][1])


# --------------------------------------------------------------------------------------
def run(ctx):
    source_tie_stage(ctx)
    rng = ctx.rng
    th = ctx.thorough
    schemas = [msggen.matrix_schema()] + [msggen.random_schema(rng) for _ in range(5 if not th else 30)] + msggen.twin_schemas() + [msggen.mixed_schema()]
    prelude = "\n".join(f"Definition sc{i} : schema := {s.coq()}." for i, s in enumerate(schemas))
    budget = 120 if not th else 500
    n_msgs = (36, 9) if not th else (400, 60)
    cap_corr = 2600 if not th else 40000

    cases = []          # (si, ci, fault, bytes, expectation)
    # ---- corpus first
    for label, ci, bs, exp in regression_cases(schemas[0]):
        cases.append((0, ci, "regress:" + label, bs, exp))
    corpus_path = os.path.join(lib.VERIF, "corpus", "C17-regress.json")
    if os.path.exists(corpus_path):
        for e in json.load(open(corpus_path)):
            idx = {c.name: i for i, c in enumerate(schemas[0].classes)}
            if e["class"] in idx:
                cases.append((0, idx[e["class"]], "corpus:" + e["label"], bytes.fromhex(e["bytes"]), e.get("expect")))
    # ---- valid encodings and their malformed variants
    valid_inputs = []
    for si, s in enumerate(schemas):
        k = n_msgs[0] if si == 0 else n_msgs[1]
        made = 0
        tries = 0
        while made < k and tries < 6 * k:
            tries += 1
            ci = rng.randrange(len(s.classes)) if not (si == 0 and made < len(s.classes) * 2) else made % len(s.classes)
            try:
                m = msggen.gen_message(s, ci, rng, in_range=True)
                bs = bytes(m)
            except Exception:  # noqa: building / encoding the value is other properties' business
                ctx.count("generator: message not encodable")
                continue
            if len(bs) > (2500 if not th else 6000):
                continue
            made += 1
            valid_inputs.append((si, ci, bs))
            for fault, vb in variants(s, ci, bs, rng, budget, th):
                cases.append((si, ci, fault, vb, None))
        for _ in range(80 if not th else 600):
            ci = rng.randrange(len(s.classes))
            cases.append((si, ci, "random-bytes", random_bytes(rng, s.classes[ci]), None))
    # ---- a length-delimited payload larger than any read chunk (70 000 bytes), cut near its end, in its middle and right after its
    #      length prefix: oracle only (BIG cases are kept out of the Coq case files); seeded change C17-6: a chunked reader that
    #      checks only for an empty chunk accepts the shortened payload
    big_cases = set()
    try:
        s0 = schemas[0]
        cip = [c.name for c in s0.classes].index("KPlain")
        fb = [f for f in s0.classes[cip].fields if f.elem.kind == "scalar" and f.elem.pt == "bytes"][0]
        fs = [f for f in s0.classes[cip].fields if f.elem.kind == "scalar" and f.elem.pt == "string"][0]
        for fld, val in ((fb, bytes(range(256)) * 274), (fs, "x" * 70000)):
            whole = bytes(s0.classes[cip].py(**{fld.name: val, "p_int32_2": 7}))
            for cut in (len(whole) - 1, len(whole) - 10, len(whole) - 4000, len(whole) - 65536, len(whole) // 2, 70, 8):
                if 0 < cut < len(whole):
                    big_cases.add(len(cases))
                    cases.append((0, cip, "truncate-big", whole[:cut], "raise"))
            big_cases.add(len(cases))
            cases.append((0, cip, "valid-big", whole, None))
    except Exception as e:  # noqa
        ctx.notes.append(f"big-payload cases not built: {e!r}")
    big_keys = {(cases[i][0], cases[i][1], cases[i][3]) for i in big_cases}
    # ---- dedup
    seen = set()
    uniq = []
    for cse in cases:
        key = (cse[0], cse[1], cse[3])
        if key in seen and not cse[2].startswith(("regress:", "corpus:")):
            continue
        seen.add(key)
        uniq.append(cse)
    cases = uniq
    ctx.count("inputs_total", len(cases))

    # ---- implementation + oracle (+ reference decoder) on every input, in forked workers
    refs = {}
    for si, s in enumerate(schemas):
        try:
            refs[si] = build_reference(s, f"{ctx.seed}_{si}")
        except Exception as e:  # noqa
            refs[si] = None
            ctx.notes.append(f"reference classes for schema {si} could not be built: {type(e).__name__}: {str(e)[:200]}")
    import time as _t
    t_impl = _t.time()
    import random as _random
    grng = _random.Random(ctx.seed * 7919 + 17)          # the gap stage's own stream: the older stages draw what they drew before
    auxs = [(grng.choice([0, 0, 0, 1, 2]), gen_rest(grng), gen_old(grng, schemas[cse[0]].classes[cse[1]])) for cse in cases]
    evs = evaluate_all(ctx, schemas, cases, refs, auxs)
    t_impl = _t.time() - t_impl
    results = []
    agreement = {}
    for (si, ci, fault, bs, exp), ev in zip(cases, evs):
        results.append(ev["result"])
        ctx.cov["evaluations"] += 1
        if ev["count"]:
            ctx.count(ev["count"])
        for cls_, what in ev["problems"]:
            ctx.fail("oracle", what, cls=cls_, input=fail_input(schemas[si], si, ci, fault, bs, auxs[len(results) - 1]))
        for k_, n_ in ev.get("gc", {}).items():
            ctx.count(k_, n_)
        if ev["nontrivial"]:
            ctx.seen_nontrivial((si, ci, bs))
        summary = ev["summary"]
        if summary in ("ok", "raise") and len(ctx.cov["samples"]) < 10 and fault != "valid" and rng.random() < (0.02 if summary == "ok" else 0.002):
            ctx.sample({"class": schemas[si].classes[ci].name, "fault": fault, "bytes": bs.hex()[:120],
                        "result": "returned" if summary == "ok" else "raised"})
        # reference decoder: accept / reject per fault class (recorded, not required to agree)
        if ev["ref"] is not None and ev["result"] is not None:
            ra, ia = ev["ref"], ev["result"] != "raise"
            d = agreement.setdefault(fault.split(":")[0], {"both_accept": 0, "both_reject": 0, "only_betterproto_accepts": 0,
                                                           "only_reference_accepts": 0, "examples_of_disagreement": []})
            d["both_accept" if ra and ia else "both_reject" if not ra and not ia else "only_betterproto_accepts" if ia else "only_reference_accepts"] += 1
            if ra != ia and len(d["examples_of_disagreement"]) < 3:
                d["examples_of_disagreement"].append({"class": schemas[si].describe()[schemas[si].classes[ci].name], "bytes": bs.hex()[:160],
                                                      "betterproto": "accepts" if ia else "rejects"})
    ctx.cov["reference_decoder_agreement"] = agreement

    # ---- correspondence: model vs implementation
    idxs = [i for i, r in enumerate(results) if r is not None and (cases[i][0], cases[i][1], cases[i][3]) not in big_keys]
    pri = [i for i in idxs if cases[i][2].startswith(("regress:", "corpus:"))]
    rest = [i for i in idxs if not cases[i][2].startswith(("regress:", "corpus:"))]
    if len(rest) > cap_corr:
        # stratified by fault class and outcome
        strata = {}
        for i in rest:
            strata.setdefault((cases[i][2], results[i] == "raise"), []).append(i)
        per = max(20, cap_corr // max(1, len(strata)))
        chosen = []
        leftovers = []
        for k in sorted(strata):
            l = strata[k]
            rng.shuffle(l)
            chosen += l[:per]
            leftovers += l[per:]
        rng.shuffle(leftovers)
        chosen += leftovers[:max(0, cap_corr - len(chosen))]
        rest = sorted(chosen)
    sel = pri + rest
    pairs = []
    for i in sel:
        si, ci, fault, bs, exp = cases[i]
        c = NBUILTIN + ci
        model = (f"(let r := parse sc{si} {c}%nat {lib.coq_bytes(bs)} in "
                 f"CL [cv_obj_res r; "
                 f"match r with Ok m => CL [cbool (well_typed sc{si} m); cbool (decoded_range sc{si} m); cv_bytes_res (enc_obj sc{si} m)] "
                 f"| Err _ => CN end])")
        if results[i] == "raise":
            expected = "(CL [CE EOther; CN])"
        else:
            snap, again = results[i]
            expected = f"(CL [cv_of_obj {snap}; CL [cbool true; cbool true; {cb(again) if again is not None else '(CE EOther)'}]])"
        pairs.append((model, expected))
    ctx.count("correspondence_cases", len(pairs))
    t_coq = _t.time()
    bad = lib.coq_compare(ctx, "c17", IMPORTS, pairs, chunk=100, prelude=prelude)
    ctx.notes.append(f"timing: implementation+oracle {t_impl:.0f}s for {len(cases)} inputs, model evaluation {_t.time() - t_coq:.0f}s for {len(pairs)} cases")
    for j in bad[:20]:
        i = sel[j]
        si, ci, fault, bs, exp = cases[i]
        ctx.fail("corr", "model (Decode.parse / well_typed / enc_obj) and implementation (parse / snapshot / bytes) disagree",
                 cls=None, input=fail_input(schemas[si], si, ci, fault, bs), implementation=pairs[j][1][:3000])
    ctx.cov["disagreements_checked"] = len(pairs)
    # ---- gap stage: kept / unk_of / parse_into / load_delimited / error kinds evaluated in Coq on the same inputs
    try:
        t_gap = _t.time()
        gap_stage(ctx, schemas, cases, evs, auxs, big_keys, prelude, grng)
        ctx.notes.append(f"timing: gap stage {_t.time() - t_gap:.0f}s")
    except RuntimeError as e:
        ctx.fail("corr", "gap stage: the evaluation helpers (Model/C17GapCv.v) could not be evaluated: " + str(e)[:1500], cls=None,
                 no_input=True, theorem_or_correspondence="Model/C17GapCv.v")
    # ---- side conditions of the theorems on the generated schemas (non-vacuity)
    side = [(f"cbool (wf_schema sc{i} && entries_agree sc{i})", lib.cbool(True)) for i in range(len(schemas))]
    badside = lib.coq_compare(ctx, "c17side", IMPORTS, side, chunk=8, prelude=prelude)
    builtins_ok = [s.coq().startswith("(mkS (builtin_classes ++ [") for s in schemas]   # has_builtins holds by construction of the literal
    ctx.count("schemas_meeting_wf_schema_entries_agree_has_builtins", len(side) - len(badside) if all(builtins_ok) else 0)
    ctx.count("schemas", len(schemas))
    for j in badside:
        ctx.notes.append(f"generated schema {j} does not satisfy wf_schema && entries_agree (theorems do not speak about it): {schemas[j].describe()}")
    for s in schemas:
        s.dispose()



def finish(ctx):
    summary = {}
    for f in ctx.failures:
        k = f"{f['kind']}:{f.get('cls')}"
        summary[k] = summary.get(k, 0) + 1
    ctx.cov["failures_by_stage_and_class"] = summary
    tie = ctx.cov.get("source_translation_tie") or {}
    held = [k for k, p in (tie.get("parts") or {}).items() if p.get("held")]
    assumptions = list(ASSUMPTIONS) + [getattr(ctx, "src_tie_line", "source-translation tie: stage not run")]
    trusted = list(TRUSTED)
    if held:
        trusted.append("source-translation tie (held for: " + ", ".join(held) + "): the translator harness/gen_c17_src.py (Python `ast`, fail-closed, extends "
                       "harness/gen_c16_src.py; accepted subset documented in both headers) and the semantics of the Python primitives it targets, "
                       "coq/Model/C16SrcLib.v + coq/Model/C17SrcLib.v (ints as Z, bytes as lists, a readable stream as the list of unread bytes, "
                       "read(n) for n < 0 reads everything, exceptions by class only, stream state dropped on an exception, a dataclass as a record, "
                       "an `Any` variable as None | int | bytes); for _read_exactly / _load_field the hand-written model is no longer trusted "
                       "beyond that: it is PROVED equal to the translation (load_varint inside it: "
                       + str((tie.get("parts") or {}).get("reader", {}).get("load_varint")) + ")")
    return lib.finish(
        ctx, "proof",
        "Coq theorems over the Gallina mirror of load_fields / _load_field / Message.load (Model/Decode.v) for every byte string and every "
        "well-formed schema + executable correspondence (vm_compute) with parse / FromString / load on valid, truncated, corrupted, "
        "wire-type-substituted, spliced and random inputs + typing / isolation / rejection oracle on the implementation"
        + ("; the record reader _read_exactly / _load_field additionally tied by mechanical source translation proved equal to the model" if "reader" in held else ""),
        assumptions, trusted, RULE,
        extra_cov={"explanation": "theorems are unbounded (all byte strings, all well-formed schemas); the correspondence and the oracle "
                                  "enumerate all truncation points of each generated message up to the size budget and sample beyond it"})


def replay(ctx, obj):
    inp = obj.get("input") or {}
    if "schema" not in inp:
        print(json.dumps(obj, indent=1)[:4000])
        return 0
    s = schema_from_spec(inp["schema"])
    bs = bytes.fromhex(inp["bytes"])
    ci = inp["class_index"]
    print(f"class {s.classes[ci].name}: {s.describe()[s.classes[ci].name]}")
    print(f"input ({inp.get('fault')}): {bs.hex()}")
    print("independent reader:", spec_class(bs)[0], spec_class(bs)[1] if spec_class(bs)[0] == "invalid" else "")
    for how, (k, v) in zip(("parse", "FromString", "load"), run_impl(s, s.classes[ci], bs)):
        print(f"  {how}: {k}: {v!r:.400}")
    ev = evaluate(s, ci, inp.get("fault", "replay"), bs, None, None, aux_from_spec(inp["aux"]) if inp.get("aux") else None)
    if str(inp.get("fault", "")).startswith("tagfault:"):
        want = EOFError if "tag-cut" in inp["fault"] else ValueError
        for how, (k, v) in zip(("parse", "FromString", "load"), run_impl(s, s.classes[ci], bs)):
            if k != "raise" or not isinstance(v, want) or (want is ValueError and isinstance(v, EOFError)):
                ev["problems"].append(("tag-error-class", f"{how}: expected {want.__name__}, got {k}: {v!r:.200}"))
    for cls_, what in ev["problems"]:
        print("FAILS:", cls_, "-", what[:400])
        ctx.failures.append(cls_)
    print("recorded failure:", obj.get("what"))
    return 1 if ctx.failures else 0
