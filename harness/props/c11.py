"""C11 — generated gRPC stub and server base agree.

Tie between coq/Model/Grpc.v and the implementation, plus the oracle (the property itself
evaluated on the real code):

  * services produced by harness/c11_protogen.py go through the REAL plugin (harness/plugin_util.py,
    ruff shim) and are imported under a unique root package;
  * reflection of every generated class: what each stub attribute calls (instrumented helpers),
    `Base().__mapping__()`, which adapter `__rpc_<py>` resolves to (driven with a fake stream);
  * REAL calls over grpclib.testing.ChannelFor([Impl()]) with scripted, recording handlers:
    which handler body ran, with what, what the caller received; request/response stream
    lengths 0..3; GRPCError statuses before/after yields; un-overridden methods; handlers of the
    wrong kind / returning None / returning the wrong class (model only, not oracle);
  * all 64 None/set combinations of stub-level and call-level timeout/deadline/metadata:
    what reaches channel.request (identity of the objects) and what the server reads from
    stream.metadata / stream.deadline;
  * raw calls (no stub) on services whose Python method names collide (finding K8);
  * CONVERSATIONAL protocols of the vocabulary of coq/Model/GrpcConv.v (request-source table x handler table: ping-pong,
    server-first greeting, bursts, early end of the request stream, random causal interleavings, replies chosen by what the
    other side just said; a handler that finishes before the request stream has ended = finding C11-K2) run over the real stub
    + Base, the caller's async generator learning about responses only through a queue fed by the caller's loop; the observed
    (requests read, responses received, end of the call, handler told about the end) is compared inside Coq with the
    model's sequential dialogue AND with the small-step system run under a random scheduler; protocols for the three
    send-first helpers as well.  A hang watchdog turns a deadlock into a failing input.

  * a non-alarming SOURCE-TRANSLATION TIE of ServiceStub.__init__ / __resolve_request_kwargs (source_tie_stage below): recorded only.

Every observation is compared with the model's prediction inside Coq (correspondence) and with
the property (oracle).  Runtime that the model cannot exhibit (HTTP/2 framing, grpclib deadline
arithmetic and cancellation, asyncio scheduling) is exercised by the real calls only.
"""
import asyncio
import json
import logging
import os
import time
import traceback

from .. import lib
from .. import plugin_util as pu
from .. import c11_protogen as pg
from ..lib import cz, cb, cl, CN

IMPORTS = "Model.Grpc Model.GrpcConv"
CALL_TIMEOUT = 12.0
CONV_TIMEOUT = 6.0   # conversational bidi calls (they deadlock when sending does not overlap receiving)
MAX_HANGS = 3

TRUSTED = [
    "Coq 8.16.1 kernel and vm_compute (no native_compute); full .vo build via coq_makefile",
    "axioms: none (every theorem of Properties/C11.v is 'Closed under the global context')",
    "hand-written models coq/Model/Grpc.v (functional) and coq/Model/GrpcConv.v (small-step: sender task / caller loop / handler, "
    "two FIFO queues, grpclib's end-of-stream check) tied to /repo by executable correspondence (this harness): model expressions are "
    "evaluated by vm_compute inside Coq on the same services / calls / conversational protocols the implementation ran",
    "translator harness/gen_c11.py (reflection of a probe service rendered by the live plugin into coq/gen/C11Tables.v)",
    "Python side: harness/c11_protogen.py (service generator), the recording handlers / channel wrapper of this file, "
    "the mapping class -> proto type name, canonicalisation of exceptions (GRPCError status / other)",
    "grpclib 0.4.9 (in-memory ChannelFor transport, h2), protoc from grpc_tools, Jinja, CPython 3.12 asyncio: used for real, "
    "not verified; pass-through ruff shim (formatting not exercised)",
    "python names (pythonize_method_name) are inputs of the model, read from the live function (their correctness is C19)",
]
ASSUMPTIONS = [
    "a message object is modelled as (class identity, serialised bytes); bytes <-> object is C01; isinstance is class equality",
    "grpclib delivers messages of one stream in order and reports the trailer status (HTTP/2 framing, flow control, deadlines, "
    "cancellation / stream resets are not modelled: claim is partial); asyncio is modelled as 'any enabled task may step' "
    "(the conversational theorems quantify over all schedules; the real FIFO ready queue is one of them)",
    "conversational theorems: the request generator consumes responses one at a time, in order (a Kahn process); a generator "
    "that polls 'has a response arrived yet' is outside them",
    "a GRPCError raised by a handler carries a status other than OK",
]
RULE = ("services: 1..5 methods, all four cardinalities (one full-matrix service per bundle), re-cased names, request/response "
        "types local / nested / other package (child, parent, sibling, unrelated) / google.protobuf; calls: request stream "
        "lengths 0..3 x response stream lengths 0..3, conversational (ping-pong) use of every stream-stream method, table-driven "
        "conversational protocols (6 families x 2-4 per stream-stream method, 6 per method of the send-first helpers), statuses "
        "before/after yields, un-overridden methods, 64 None/set kwargs combinations x 4 cardinalities + 260 combinations with "
        "set-but-falsy values (timeout=0, metadata={} / []); non-trivial = a call that carries at least one non-empty message or a non-OK status "
        "or a non-None kwarg; distinct = distinct (service shape, method, request bytes, script, kwargs)")

# --------------------------------------------------------------------------------------------------------------------
# Source-translation tie (second, tighter tie for the kwargs clause; NON-ALARMING on its own).
#   harness/gen_c11_src.py (an extension of harness/gen_c16_src.py) translates the CURRENT source text of ServiceStub.__init__ /
#   ServiceStub.__resolve_request_kwargs into coq/gen/C11Src.v; Proofs/C11Src.v proves the translation equal to the hand-written
#   model (resolve1 / resolve_kwargs) and restates C11_kwargs / C11_kwargs_falsy_is_set / C11_kwargs_passed over it;
#   Properties/C11Src.v states it.  These files are NOT among the targets of the main build: a behaviour-preserving rewrite
#   of the Python functions may make the translator reject or the proof scripts fail while C11 still holds.  So this stage
#   only RECORDS whether the tie held (evidence: input_distribution "source_tie:*", coverage.source_translation_tie, an
#   assumptions line, the theorems + Print Assumptions verdicts when it held) and NEVER calls ctx.fail: when it does not
#   hold, the sampled correspondence (64 None / set combinations + set-but-falsy values) and the oracles below decide, as before.
# --------------------------------------------------------------------------------------------------------------------
SRC_TIE_PARTS = [
    ("kwargs", "C11Src.v", "ServiceStub.__init__ (what it stores) and ServiceStub.__resolve_request_kwargs"),
]


class _AuditSink:
    """lib.audit stores its result in `.proof` of whatever it is given; keeps the main ctx.proof untouched"""
    proof = None


def source_tie_stage(ctx):
    import re

    report = {"translator": None, "parts": {}}
    ctx.cov["source_translation_tie"] = report
    lines = []
    gen = os.path.join(lib.VERIF, "harness", "gen_c11_src.py")
    try:
        # (a) the translator's verdict on the current source (dry run: writes nothing; setup.sh below regenerates gen/C11Src.v
        #     under the build lock)
        rc, out = lib.run([lib.PY, gen, "--dry-run"], timeout=300, cwd=lib.VERIF)
        # the translator's own regression snippets (constructs outside the subset must be rejected, `is None` and truthiness
        # must be rendered differently): a translator that fails them is not trusted to tie anything
        src, sout = lib.run([lib.PY, gen, "--selftest"], timeout=300, cwd=lib.VERIF)
        sl = [l for l in sout.strip().splitlines() if "WARNING conda" not in l]
        report["translator_selftest"] = sl[-1][:200] if sl else "no output"
        ctx.count("source_tie:translator_selftest_ok", 1 if src == 0 else 0)
        # informational: what keeps the async functions outside the subset (never decides anything)
        try:
            _, vout = lib.run([lib.PY, gen, "--survey"], timeout=300, cwd=lib.VERIF)
            for l in vout.splitlines():
                if l.startswith("C11SRC-SURVEY: "):
                    report["not_translated_async_functions"] = {k: sorted(v) for k, v in json.loads(l[len("C11SRC-SURVEY: "):]).items()}
        except Exception as e:  # noqa
            report["not_translated_async_functions"] = "survey failed: " + repr(e)[:200]
        verdicts = {}
        for l in ([] if src != 0 else out.splitlines()):
            m = re.match(r"C11SRC-TRANSLATION-(OK|REJECTED): (\w+)(?:: (.*))?$", l)
            if m:
                verdicts[m.group(2)] = (m.group(1) == "OK", m.group(3) or "")
        report["translator"] = {k: {"accepted": ok, "message": why or "accepted"} for k, (ok, why) in verdicts.items()}
        for key, prop_file, what in SRC_TIE_PARTS:
            part = {"what": what, "held": False, "reason": None, "theorems": []}
            report["parts"][key] = part
            ok, why = verdicts.get(key, (False, "translator self-test failed" if src != 0 else "no verdict from the translator: " + out.strip()[-300:]))
            ctx.count(f"source_tie:{key}_translated", 1 if ok else 0)
            if not ok:
                part["reason"] = "translator rejected the current source (construct outside its subset): " + why
            else:
                brc, bout = lib.run([os.path.join(lib.VERIF, "setup.sh"), "Properties/" + prop_file + "o"], timeout=1500, cwd=lib.VERIF)
                if brc != 0:
                    err = re.findall(r'File "[^"]*", line \d+[^\n]*\n(?:[^\n]*\n){0,6}', bout)
                    part["reason"] = ("gen/C11Src.v or the proofs do not compile against the current source (the proof scripts are tied to "
                                      "the shape of the code): " + (err[0] if err else bout[-600:]).strip()[:900])
                else:
                    sink = _AuditSink()
                    pr = lib.audit(sink, prop_file)
                    part["theorems"] = pr["theorems"]
                    if pr["problems"] or pr["discharged"] != pr["obligations"] or not pr["obligations"]:
                        part["reason"] = "audit of Properties/%s: %s" % (prop_file, "; ".join(pr["problems"])[:600] or "no theorem")
                    else:
                        part["held"] = True
                        part["print_assumptions"] = "all %d theorems closed under the global context" % pr["obligations"]
                        # the audit of the main file must have succeeded for the merged counts to mean anything
                        if ctx.proof and not ctx.proof.get("problems") and ctx.build_ok:
                            ctx.proof["obligations"] += pr["obligations"]
                            ctx.proof["discharged"] += pr["discharged"]
                            ctx.proof["theorems"] = list(ctx.proof["theorems"]) + pr["theorems"]
                            ctx.proof["verdicts"] = list(ctx.proof["verdicts"]) + pr["verdicts"]
            ctx.count(f"source_tie:{key}_held", 1 if part["held"] else 0)
            lines.append(f"{key} ({what}): " + ("HELD, %d theorems of Properties/%s closed" % (len(part["theorems"]), prop_file) if part["held"]
                                                 else "DID NOT HOLD on this tree - " + str(part["reason"])[:400]))
    except Exception as e:  # noqa  - this stage must never decide the check
        report["stage_error"] = repr(e)[:500]
        lines.append("stage could not complete: " + repr(e)[:300])
        for key, _, _ in SRC_TIE_PARTS:
            if key not in report["parts"] or not report["parts"][key].get("held"):
                ctx.dist.setdefault(f"source_tie:{key}_held", 0)
    held_all = all(report["parts"].get(k, {}).get("held") for k, _, _ in SRC_TIE_PARTS)
    ctx.src_tie_line = ("source-translation tie (harness/gen_c11_src.py -> coq/gen/C11Src.v, proved equal to the model in Properties/C11Src.v; "
                        "objects are opaque values of any type, bool() on them any function; the async call helpers, _send_messages and "
                        "ServiceBase._call_rpc_handler_server_stream are NOT translated - that the helpers pass **__resolve_request_kwargs(...) "
                        "to channel.request stays with the sampled correspondence): "
                        + "; ".join(lines)
                        + (". Where it did not hold the check FELL BACK to the sampled correspondence and the oracles (no verdict is drawn "
                           "from a failed translation or a failed equality proof)." if not held_all else ""))
    ctx.notes.append(ctx.src_tie_line)
    return report


# ids of the kwarg objects in the model
KW_IDS = {"timeout": (11, 12), "deadline": (21, 22), "metadata": (31, 32)}
T_STUB, T_CALL, D_STUB, D_CALL = 100.0, 140.0, 120.0, 160.0
MD_STUB = {"c11-src": "stub", "c11-stub": "1"}
MD_CALL = [("c11-src", "call"), ("c11-call", "1")]


_INTERN = {}


def coq_str(s: str) -> str:
    """strings (type names, python names, routes) are interned as Definitions of the case-file preamble:
    the case files stay small and Coq parses each literal once"""
    if len(s) < 4:
        return lib.coq_bytes(s.encode("utf-8"))
    if s not in _INTERN:
        _INTERN[s] = f"s{len(_INTERN)}_"
    return _INTERN[s]


def intern_defs() -> str:
    return "".join(f"\nDefinition {n} : str := {lib.coq_bytes(s.encode('utf-8'))}." for s, n in _INTERN.items())


def cs_(s: str) -> str:
    return f"(CB {coq_str(s)})"


# ======================================================================================
# runtime view of one generated service
# ======================================================================================
class Rt:
    def __init__(self, bundle, svc, base_dir, pydantic=False):
        from betterproto.compile.naming import pythonize_class_name, pythonize_method_name

        self.bundle, self.svc = bundle, svc
        self.module = pu.import_generated(base_dir, bundle.root, svc.pkg)
        cname = pythonize_class_name(svc.name)
        self.Stub = getattr(self.module, cname + "Stub")
        self.Base = getattr(self.module, cname + "Base")
        self.py = [pythonize_method_name(m.name) for m in svc.methods]
        self.classes, self.names = {}, {}
        if pydantic:     # the package's own well-known classes are then the pydantic ones
            import betterproto.lib.pydantic.google.protobuf as gp
        else:
            import betterproto.lib.google.protobuf as gp
        self.pydantic = pydantic

        for full, (pkg, cn) in bundle.types.items():
            try:
                cls = getattr(gp, cn) if pkg is None else getattr(pu.import_generated(base_dir, bundle.root, pkg), cn)
            except Exception:  # a package no service of this bundle uses need not exist
                continue
            self.classes[full] = cls
            self.names[cls] = full
        self.coq_name = f"S_{bundle.root}_{svc.index}"

    def typename(self, cls) -> str:
        return self.names.get(cls, "?" + getattr(cls, "__module__", "?") + "." + getattr(cls, "__qualname__", repr(cls)))

    def snap(self, m):
        if m is None:
            return None
        try:
            return (self.typename(type(m)), bytes(m))
        except Exception as e:  # noqa
            return ("?unserialisable " + type(m).__name__, repr(e).encode())

    def value(self, ref):
        full, idx = ref
        cls = self.classes[full]
        kws = pg.sample_kwargs(cls.__name__)
        return cls(**kws[idx % len(kws)])

    def dup_py(self, i) -> bool:
        return self.py.count(self.py[i]) > 1

    def shadowed(self, i) -> bool:
        """a LATER method has the same Python name: method i's `def`s are replaced (K8). The last method
        with a name owns it and must work (C11_payload_owner)."""
        return self.py[i] in self.py[i + 1:]

    def literal(self) -> str:
        ms = "; ".join(
            f"Method {coq_str(m.name)} {coq_str(p)} {lib.coq_bool(m.cs)} {lib.coq_bool(m.ss)} {coq_str(m.in_t)} {coq_str(m.out_t)}"
            for m, p in zip(self.svc.methods, self.py))
        return f"(Service {coq_str(self.svc.pkg)} {coq_str(self.svc.name)} [{ms}])"

    def describe(self):
        return {"root": self.bundle.root, "package": self.svc.pkg, "service": self.svc.name,
                "methods": [{"name": m.name, "py": p, "client_streaming": m.cs, "server_streaming": m.ss,
                             "in": m.in_t, "out": m.out_t} for m, p in zip(self.svc.methods, self.py)]}


# ======================================================================================
# Gallina literals for cases, cv literals for observations
# ======================================================================================
def msg_lit(snap) -> str:
    return f"({coq_str(snap[0])}, {lib.coq_bytes(snap[1])})"


def kw_lit(ids) -> str:
    return "(Kw " + " ".join("None" if i is None else f"(Some ({i})%Z)" for i in ids) + ")"


def script_lit(py, sc, rt) -> str:
    ys = "[" + "; ".join(msg_lit(rt.snap(rt.value(r))) for r in sc["resp"]) + "]"
    st = "None" if sc["status"] is None else f"(Some ({sc['status']})%Z)"
    return f"({coq_str(py)}, scripted {lib.coq_bool(sc['gen'])} {ys} {st})"


def impl_lit(scripts, rt) -> str:
    return "(impl_of [" + "; ".join(script_lit(py, sc, rt) for py, sc in scripts.items()) + "])"


def cv_msg(s):
    return cl([cs_(s[0]), cb(s[1])])


def cv_optz(x):
    return CN if x is None else cz(x)


def cv_hinput(inp):
    kind, val = inp
    if kind == "one":
        return cl([cz(0), CN if val is None else cv_msg(val)])
    return cl([cz(1), cl([cv_msg(x) for x in val])])


def cv_trace(tr):
    return cl([cl([cs_(py), cv_hinput(inp)]) for py, inp in tr])


def cv_end(e):
    if e[0] == "done":
        return cz(0)
    if e[0] == "grpc":
        return cl([cz(1), cz(e[1])])
    return cz(2)


def cv_cres(msgs, end):
    return cl([cl([cv_msg(m) for m in msgs]), cv_end(end)])


CARD_NUM = {(False, False): 0, (False, True): 1, (True, False): 2, (True, True): 3}


def card_num(c):
    return CARD_NUM[(bool(c.client_streaming), bool(c.server_streaming))]


# ======================================================================================
# handlers, implementation classes, the real call
# ======================================================================================
def make_handler(rt, py, cs, sc, log):
    import grpclib

    responses = [rt.value(r) for r in sc["resp"]]
    status = None if sc["status"] is None else grpclib.const.Status(sc["status"])

    async def drain(entry, request):
        if cs:
            got = []
            entry[1] = ("many", got)
            async for r in request:
                got.append(rt.snap(r))
        else:
            entry[1] = ("one", rt.snap(request))

    if sc["gen"]:
        async def h(self, request):
            entry = [py, ("unfinished", None)]
            log.append(entry)
            if cs and sc.get("interleave") == "pingpong":
                got = []
                entry[1] = ("many", got)
                k = 0
                async for r_ in request:
                    got.append(rt.snap(r_))
                    if k < len(responses):
                        yield responses[k]
                        k += 1
                for r in responses[k:]:
                    yield r
            elif cs and sc.get("interleave") == "first":
                # reads what the script says it needs (one request per response), answers, and ends (status below) WITHOUT
                # waiting for the end of the request stream
                got = []
                entry[1] = ("many", got)
                it = request.__aiter__()
                for r in responses:
                    got.append(rt.snap(await it.__anext__()))
                    yield r
            elif cs and sc.get("interleave"):
                got = []
                entry[1] = ("many", got)
                it = request.__aiter__()
                more = True
                for r in responses:
                    if more:
                        try:
                            got.append(rt.snap(await it.__anext__()))
                        except StopAsyncIteration:
                            more = False
                    yield r
                while more:
                    try:
                        got.append(rt.snap(await it.__anext__()))
                    except StopAsyncIteration:
                        more = False
            else:
                await drain(entry, request)
                for r in responses:
                    yield r
            if status is not None:
                raise grpclib.GRPCError(status, "scripted")
    else:
        async def h(self, request):
            entry = [py, ("unfinished", None)]
            log.append(entry)
            await drain(entry, request)
            if status is not None:
                raise grpclib.GRPCError(status, "scripted")
            return responses[0] if responses else None
    h.__name__ = py
    return h


def make_impl(rt, scripts, log, server_seen=None):
    ns = {}
    for py, sc in scripts.items():
        i = len(rt.py) - 1 - rt.py[::-1].index(py)   # the adapter that survives decides how the request arrives
        ns[py] = make_handler(rt, py, sc["cs"] if "cs" in sc else rt.svc.methods[i].cs, sc, log)
    if server_seen is not None:
        base = rt.Base

        def __mapping__(self):
            mp = base.__mapping__(self)

            def wrap(h):
                async def f(stream):
                    server_seen.append((list(stream.metadata.items()) if stream.metadata is not None else None,
                                        None if stream.deadline is None else stream.deadline.time_remaining()))
                    await h.func(stream)
                return h._replace(func=f)
            return {k: wrap(h) for k, h in mp.items()}
        ns["__mapping__"] = __mapping__
    return type("Impl", (rt.Base,), ns)()


FALSY_ID = 0   # model value of a keyword argument that is set but falsy (timeout=0, metadata={} / [] / ())


def kw_objects(flags, which):
    """flags: [timeout, deadline, metadata], each 0 = None, 1 = set (truthy), 2 = set but FALSY (timeout 0 /
    empty metadata; a Deadline is always truthy); which: 0 = stub level, 1 = call level.
    Returns (kwargs dict, ids of the values in the model)."""
    from grpclib.metadata import Deadline

    out, ids = {}, []
    if flags[0]:
        out["timeout"] = (T_STUB, T_CALL)[which] if flags[0] == 1 else (0.0, 0)[which]
    if flags[1]:
        out["deadline"] = Deadline.from_timeout((D_STUB, D_CALL)[which])
    if flags[2]:
        out["metadata"] = (MD_STUB, MD_CALL)[which] if flags[2] == 1 else ({}, [])[which]
    for k, f in zip(("timeout", "deadline", "metadata"), flags):
        ids.append(None if not f else KW_IDS[k][which] if f == 1 else FALSY_ID)
    return out, ids


def arg_object(rt, case, got_reply=None):
    vals = [rt.value(r) for r in case["reqs"]]
    if not case["iter"]:
        return vals[0], [rt.snap(v) for v in vals[:1]]
    kind = case.get("iter_kind", "list")
    snaps = [rt.snap(v) for v in vals]
    if kind == "tuple":
        return tuple(vals), snaps
    if kind == "gen":
        return (v for v in vals), snaps
    if kind == "conversation":
        # request i+1 is produced only after the caller has RECEIVED response i (ping-pong): sending must
        # overlap receiving, which ServiceStub._stream_stream does with a background sending task
        async def conv():
            for v in vals:
                yield v
                await got_reply.wait()
                got_reply.clear()
        return conv(), snaps
    if kind == "open":
        # the caller's request stream yields its requests and then STAYS OPEN (an AsyncChannel nobody closed, a slow producer):
        # the background sending task is still pending when the handler's status arrives
        async def op():
            for v in vals:
                yield v
            await asyncio.Event().wait()
        return op(), snaps
    if kind == "agen":
        async def ag():
            for v in vals:
                await asyncio.sleep(0)
                yield v
        return ag(), snaps
    return list(vals), snaps


async def real_call(rt, case):
    """one call through the generated stub over ChannelFor. Returns the observation dict."""
    import grpclib
    from grpclib.testing import ChannelFor

    log, server_seen, rec = [], [], []
    impl = make_impl(rt, case["scripts"], log, server_seen if case.get("kwargs") else None)
    skw, skw_ids = kw_objects(case.get("kwargs", {}).get("stub", [0, 0, 0]), 0)
    ckw, ckw_ids = kw_objects(case.get("kwargs", {}).get("call", [0, 0, 0]), 1)
    obs = {"rec": rec, "log": log, "server_seen": server_seen, "msgs": [], "end": ("done",), "kw_objs": (skw, ckw),
           "kw_ids": (skw_ids, ckw_ids)}
    limit = CONV_TIMEOUT if case.get("iter_kind") in ("conversation", "open") else CALL_TIMEOUT
    got_reply = asyncio.Event()

    async def body():
        async with ChannelFor([impl]) as ch:
            orig = ch.request

            def request(name, cardinality, request_type, reply_type, **kw):
                rec.append((name, cardinality, request_type, reply_type, kw))
                return orig(name, cardinality, request_type, reply_type, **kw)
            ch.request = request
            stub = rt.Stub(ch, **skw)
            arg, _ = arg_object(rt, case, got_reply)
            try:
                res = getattr(stub, case["py"])(arg, **ckw)
                if hasattr(res, "__aiter__"):
                    obs["shape"] = "iterator"
                    async for r in res:
                        obs["msgs"].append(rt.snap(r))
                        got_reply.set()
                else:
                    obs["shape"] = "single"
                    r = await res
                    obs["msgs"].append(rt.snap(r))
            except grpclib.GRPCError as e:
                obs["end"] = ("grpc", e.status.value)
                if obs.get("shape") == "single":
                    obs["msgs"] = []
            except asyncio.CancelledError:
                if case.get("iter_kind") != "open":
                    raise
                # nobody cancelled this call: a CancelledError here replaced the handler's status on its way to the caller
                obs["end"] = ("exc", "CancelledError surfaced to the caller instead of the handler's GRPCError")
            except Exception as e:  # noqa
                obs["end"] = ("exc", f"{type(e).__name__}: {e}")
                if obs.get("shape") == "single":
                    obs["msgs"] = []
            await asyncio.sleep(0)
    try:
        await asyncio.wait_for(body(), limit)
    except asyncio.TimeoutError:
        obs["end"] = ("hang", f"no result within {limit}s")
    except Exception as e:  # noqa
        obs["end"] = ("exc", f"harness/transport: {type(e).__name__}: {e}")
    return obs


async def raw_call(rt, case):
    """a client that does not use the stub: opens the route itself and reads every reply"""
    import grpclib
    from grpclib.const import Cardinality
    from grpclib.testing import ChannelFor

    log = []
    impl = make_impl(rt, case["scripts"], log)
    m = rt.svc.methods[case["method"]]
    obs = {"log": log, "msgs": [], "end": ("done",)}
    vals = [rt.value(r) for r in case["reqs"]]

    async def body():
        async with ChannelFor([impl]) as ch:
            try:
                async with ch.request(case["route"], Cardinality.STREAM_STREAM if case["iter"] else Cardinality.UNARY_STREAM,
                                      rt.classes[m.in_t], rt.classes[m.out_t]) as s:
                    if case["iter"]:
                        await s.send_request()
                        for v in vals:
                            await s.send_message(v)
                        await s.end()
                    else:
                        await s.send_message(vals[0], end=True)
                    async for r in s:
                        obs["msgs"].append(rt.snap(r))
            except grpclib.GRPCError as e:
                obs["end"] = ("grpc", e.status.value)
            except asyncio.CancelledError:
                raise
            except Exception as e:  # noqa
                obs["end"] = ("exc", f"{type(e).__name__}: {e}")
    try:
        await asyncio.wait_for(body(), CALL_TIMEOUT)
    except asyncio.TimeoutError:
        obs["end"] = ("hang", "")
    return obs


# ======================================================================================
# reflection of the generated classes
# ======================================================================================
HELPERS = ["_unary_unary", "_unary_stream", "_stream_unary", "_stream_stream"]


def reflect_stub(rt):
    """for every distinct python name: what the attribute of the Stub class does -> cv"""
    out = []
    for py in dict.fromkeys(rt.py):
        i = rt.py.index(py)
        m = rt.svc.methods[len(rt.py) - 1 - rt.py[::-1].index(py)]
        seen = []

        def mk(h):
            def rec(*a, **k):
                seen.append((h, a))

                async def coro():
                    return None

                async def gen():
                    return
                    yield  # noqa
                return gen() if h.endswith("_stream") else coro()
            return rec
        stub = rt.Stub(None)
        for h in HELPERS:
            setattr(stub, h, mk(h))
        sentinel = object()
        try:
            res = getattr(stub, py)(sentinel)

            async def drive():
                if hasattr(res, "__aiter__"):
                    async for _ in res:
                        pass
                else:
                    await res
            asyncio.run(drive())
        except Exception as e:  # noqa
            out.append(cl([cs_(f"stub attribute raised {type(e).__name__}")]))
            continue
        if len(seen) != 1:
            out.append(cl([cs_(f"{len(seen)} helper calls")]))
            continue
        h, a = seen[0]
        hn = HELPERS.index(h)
        if hn >= 2 and len(a) == 4 and a[1] is sentinel:
            out.append(cl([cz(hn), cs_(a[0]), cs_(rt.typename(a[2])), cs_(rt.typename(a[3]))]))
        elif hn < 2 and len(a) == 3 and a[1] is sentinel:
            out.append(cl([cz(hn), cs_(a[0]), cb(b""), cs_(rt.typename(a[2]))]))
        else:
            out.append(cl([cs_("unexpected helper arguments")]))
    return cl(out)


def reflect_mapping(rt, routes):
    mp = rt.Base().__mapping__()
    out = []
    for r in routes:
        h = mp.get(r)
        if h is None:
            out.append(CN)
            continue
        fn = getattr(h.func, "__name__", "")
        py = fn.split("__rpc_", 1)[1] if "__rpc_" in fn else "?" + fn
        out.append(cl([cs_(py), cz(card_num(h.cardinality)), cs_(rt.typename(h.request_type)), cs_(rt.typename(h.reply_type))]))
    return cl(out), mp


def reflect_adapters(rt):
    """drive the adapter that `__rpc_<py>` resolves to with a fake stream: does it take one message or
    the iterator, does it send the awaited result or go through the server-stream helper"""
    out = []
    for py in dict.fromkeys(rt.py):
        calls = []

        class FakeStream:
            async def recv_message(self):
                calls.append("recv_message")
                return "REQ"

            def __aiter__(self):
                calls.append("__aiter__")
                return self

            async def __anext__(self):
                raise StopAsyncIteration

            async def send_message(self, m):
                calls.append(("send", m))

        got = []

        async def handler(self, request):
            got.append(request)
            return "RESP"
        impl = type("Impl", (rt.Base,), {py: handler})()
        try:
            asyncio.run(getattr(impl, f"_{rt.Base.__name__}__rpc_{py}")(FakeStream()))
        except Exception as e:  # noqa
            out.append(cl([cs_(f"adapter raised {type(e).__name__}")]))
            continue
        cs = "__aiter__" in calls
        ss = ("send", "RESP") not in calls
        out.append(cl([lib.cbool(cs), lib.cbool(ss)]))
    return cl(out)


# ======================================================================================
# case generation
# ======================================================================================
def pick_ref(rng, full, rt, nontrivial=False):
    n = len(pg.sample_kwargs(rt.classes[full].__name__))
    return (full, rng.randrange(1, n) if (nontrivial and n > 1) else rng.randrange(n))


def call_cases(ctx, rt, i, thorough):
    """scripted calls of method i of the service"""
    rng = ctx.rng
    m, py = rt.svc.methods[i], rt.py[i]
    cases = []

    def reqs(n):
        return [pick_ref(rng, m.in_t, rt) for _ in range(n)]

    def resp(n):
        return [pick_ref(rng, m.out_t, rt) for _ in range(n)]

    def base(nreq, **kw):
        c = {"kind": "call", "method": i, "py": py, "iter": m.cs, "reqs": reqs(nreq if m.cs else 1), "wellformed": True}
        if m.cs:
            c["iter_kind"] = rng.choice(["list", "tuple", "gen", "agen"])
        c.update(kw)
        return c

    req_lens = [0, 1, 2, 3] if m.cs else [1]
    resp_lens = [0, 1, 2, 3] if m.ss else [1]
    for a in req_lens:
        for b in resp_lens:
            # (a handler that alternates reading and yielding; not where names collide: a send that fails
            #  half-way would leave the request stream partly read, which the model does not express)
            sc = {"gen": m.ss, "resp": resp(b), "status": None,
                  "interleave": m.cs and m.ss and not rt.dup_py(i) and rng.random() < 0.5}
            cases.append(base(a, scripts={py: sc}, feature=f"lengths req={a if m.cs else 'unary'} resp={b if m.ss else 'unary'}"))
    # conversational use of a bidirectional method: the caller produces request i+1 only after it has seen
    # response i; the handler answers each request as it arrives.  (What the model predicts is the same lists
    # as for send-all-then-read: interleaving is scheduling, which the model does not express.)
    if m.cs and m.ss and not rt.dup_py(i):
        for n in ([1, 3] if not thorough else [1, 2, 3, 4]):
            sc = {"gen": True, "resp": resp(n), "status": None, "interleave": "pingpong"}
            c = base(n, scripts={py: sc}, feature=f"conversation (ping-pong) of {n} exchanges")
            c["iter_kind"] = "conversation"
            c["schedule"] = "request i+1 is yielded by the caller's async generator only after response i was received; handler yields response i on reading request i"
            cases.append(c)
    # the handler of a bidirectional method ends with a status while the caller's request stream is still open (the stub's sending
    # task is pending): the caller must get exactly that status (seeded change C11-6: the clean-up path awaits the cancelled sender)
    if m.cs and m.ss and not rt.dup_py(i):
        for n, st in ((1, 5), (2, 16)) if thorough else ((1, 5),):
            sc = {"gen": True, "resp": resp(n), "status": st, "interleave": "first"}
            c = base(n, scripts={py: sc}, feature=f"status {st} after {n} responses while the request stream is still open")
            c["iter_kind"] = "open"
            c["corr_reqonly"] = True     # how many already-yielded responses survive the stream reset is transport behaviour: oracle only
            cases.append(c)
    # statuses: before any response, after k yields
    statuses = [1, 3, 5, 7, 9, 12, 13, 14, 16] if thorough else [rng.choice([1, 3, 5, 7, 13, 16]), 12]
    for st in statuses:
        ks = [0, 1, 3] if m.ss else [0]
        for k in (ks if thorough else [rng.choice(ks), 0][: (2 if m.ss else 1)]):
            sc = {"gen": m.ss, "resp": resp(k), "status": st, "interleave": False}
            cases.append(base(rng.choice(req_lens), scripts={py: sc}, feature=f"status {st} after {k} responses"))
    # not overridden
    cases.append(base(rng.choice(req_lens), scripts={}, feature="unimplemented", notrace=True))
    # server streaming method written without `yield` (coroutine): part of the property's domain
    if m.ss:
        cases.append(base(rng.choice(req_lens), scripts={py: {"gen": False, "resp": [], "status": None}},
                          feature="ss handler without yield, returns"))
        cases.append(base(rng.choice(req_lens), scripts={py: {"gen": False, "resp": [], "status": rng.choice([5, 7, 16])}},
                          feature="ss handler without yield, raises"))
    # misuse: model only
    if not m.ss:
        cases.append(base(rng.choice(req_lens), scripts={py: {"gen": True, "resp": resp(1), "status": None}},
                          feature="misuse: async generator for a unary response", wellformed=False))
        cases.append(base(rng.choice(req_lens), scripts={py: {"gen": False, "resp": [], "status": None}},
                          feature="misuse: handler returns None", wellformed=False))
    others = [t for t in rt.classes if t != m.out_t and not t.startswith(".google")]
    if others:
        wrong = pick_ref(rng, rng.choice(others), rt)
        sc = {"gen": m.ss, "resp": (resp(1) if m.ss else []) + [wrong], "status": None}
        cases.append(base(rng.choice(req_lens), scripts={py: sc}, feature="misuse: response of the wrong class", wellformed=False))
    if not m.cs:
        others_in = [t for t in rt.classes if t != m.in_t and not t.startswith(".google")]
        if others_in:
            c = base(1, scripts={py: {"gen": m.ss, "resp": resp(1), "status": None}},
                     feature="misuse: unary request of the wrong class", wellformed=False)
            # only pairs whose bytes survive being parsed as the declared class unchanged (the model keeps the bytes)
            simple = lambda t: t.rsplit(".", 1)[1]
            compat = [t for t in others_in if {simple(t), simple(m.in_t)} == {"Req", "Resp"}]
            c["reqs"] = [(compat[0], 1)] if compat else [(rng.choice(others_in), 0)]
            cases.append(c)
    return cases


def kwargs_cases(ctx, rt):
    """64 None/set combinations x every method of the (full-matrix) service, then every combination in which at
    least one value is SET BUT FALSY (timeout=0 / 0.0, metadata={} / []): 18 x 18 - 64 = 260 more, rotated over the
    four cardinalities in the quick tier, on every method in the thorough tier"""
    cases = []

    def one(i, stub, call):
        m, py = rt.svc.methods[i], rt.py[i]
        sc = {"gen": m.ss, "resp": [pick_ref(ctx.rng, m.out_t, rt)], "status": None}
        c = {"kind": "call", "method": i, "py": py, "iter": m.cs, "reqs": [pick_ref(ctx.rng, m.in_t, rt)],
             "scripts": {py: sc}, "kwargs": {"stub": stub, "call": call}, "wellformed": True,
             "feature": f"kwargs stub={stub} call={call}"}
        if resolved_timeout_is_zero(c):
            # the resolved timeout is 0: the call is expired before it starts (grpclib); only what reaches
            # channel.request is compared
            c["reqonly"] = True
        return c

    for bits in range(64):
        stub = [(bits >> k) & 1 for k in (0, 1, 2)]
        call = [(bits >> k) & 1 for k in (3, 4, 5)]
        for i in range(len(rt.svc.methods)):
            cases.append(one(i, stub, call))
    n = 0
    states = [(t, d, md) for t in (0, 1, 2) for d in (0, 1) for md in (0, 1, 2)]
    for stub in states:
        for call in states:
            if 2 not in stub and 2 not in call:
                continue
            if ctx.thorough:
                for i in range(len(rt.svc.methods)):
                    cases.append(one(i, list(stub), list(call)))
            else:
                cases.append(one(n % len(rt.svc.methods), list(stub), list(call)))
            n += 1
    return cases


def collision_raw_cases(ctx, rt):
    cases = []
    rng = ctx.rng
    for i, (m, py) in enumerate(zip(rt.svc.methods, rt.py)):
        if not rt.dup_py(i):
            continue
        last = rt.svc.methods[len(rt.py) - 1 - rt.py[::-1].index(py)]
        for k in ([0, 1, 2] if last.ss else [1]):
            sc = {"gen": last.ss, "resp": [pick_ref(rng, last.out_t, rt) for _ in range(k)], "status": None}
            cases.append({"kind": "raw", "method": i, "py": py, "route": rt.svc.canonical_route(m), "iter": m.cs,
                          "reqs": [pick_ref(rng, m.in_t, rt) for _ in range(rng.choice([0, 1, 2]) if m.cs else 1)],
                          "scripts": {py: sc}, "feature": f"raw call on a colliding name, {k} responses"})
    return cases


# ======================================================================================
# model expressions and expected values
# ======================================================================================
def model_call_expr(rt, case, snaps):
    kwc = case.get("kwargs", {"stub": [0, 0, 0], "call": [0, 0, 0]})
    _, sids = kw_ids(kwc["stub"], 0)
    _, cids = kw_ids(kwc["call"], 1)
    arg = ("(ArgIter [" + "; ".join(msg_lit(s) for s in snaps) + "])") if case["iter"] else f"(ArgOne {msg_lit(snaps[0])})"
    f = "cv_obs_reqonly" if (case.get("reqonly") or case.get("corr_reqonly")) else "cv_obs_notrace" if case.get("notrace") else "cv_obs"
    return (f"{f} (call {rt.coq_name} {impl_lit(case['scripts'], rt)} {kw_lit(sids)} {coq_str(case['py'])} {arg} {kw_lit(cids)})")


def kw_ids(flags, which):
    ids = [None if not f else KW_IDS[k][which] if f == 1 else FALSY_ID for k, f in zip(("timeout", "deadline", "metadata"), flags)]
    return None, ids


def observed_kw_ids(obs_kw, skw, ckw, sids, cids):
    out = []
    for n, k in enumerate(("timeout", "deadline", "metadata")):
        v = obs_kw.get(k, "missing")
        if v is None:
            out.append(None)
        elif k in ckw and (v is ckw[k] or (type(v) is type(ckw[k]) and v == ckw[k])):
            out.append(cids[n])
        elif k in skw and (v is skw[k] or (type(v) is type(skw[k]) and v == skw[k])):
            out.append(sids[n])
        else:
            out.append(-1)
    return out


def resolved_timeout_is_zero(case):
    kwc = case.get("kwargs")
    if not kwc:
        return False
    return kwc["call"][0] == 2 or (kwc["call"][0] == 0 and kwc["stub"][0] == 2)


def expected_call_cv(rt, case, obs):
    if len(obs["rec"]) != 1:
        return cl([cs_(f"{len(obs['rec'])} channel.request calls")])
    name, cardv, rtype, ptype, kw = obs["rec"][0]
    ids = observed_kw_ids(kw, *obs["kw_objs"], *obs["kw_ids"])
    rinfo = cl([cs_(name), cz(card_num(cardv)), cs_(rt.typename(rtype)), cs_(rt.typename(ptype)),
                cl([cv_optz(i) for i in ids])])
    if case.get("reqonly") or case.get("corr_reqonly"):
        return rinfo
    end = obs["end"]
    cres = cv_cres(obs["msgs"], end)
    if case.get("notrace"):
        return cl([rinfo, cres])
    return cl([rinfo, cv_trace([(e[0], e[1]) for e in obs["log"]]), cres])


# ======================================================================================
# the oracle: the property itself on one observed call
# ======================================================================================
def finding_class(rt, case):
    i = case["method"]
    if rt.shadowed(i):
        return "pyname-collision"
    sc = case["scripts"].get(rt.py[i])
    if sc is not None and rt.svc.methods[i].ss and not sc["gen"]:
        return "ss-coroutine-handler"
    return None


def oracle_call(rt, case, obs, snaps):
    """returns a list of human-readable reasons why this observation violates C11 ([] = holds)"""
    from grpclib.const import Cardinality

    i = case["method"]
    m, py = rt.svc.methods[i], rt.py[i]
    why = []
    if obs["end"][0] == "hang":
        if case.get("iter_kind") == "conversation":
            return [f"conversational stream-stream call deadlocked ({obs['end'][1]}): {case.get('schedule')}; handler saw "
                    f"{[e[1] for e in obs['log']]}, caller received {len(obs['msgs'])} of {len(case['scripts'][py]['resp'])} responses"]
        return [f"the call did not complete ({obs['end'][1]})"]
    # ---- what reached the channel
    if len(obs["rec"]) != 1:
        return [f"the stub opened {len(obs['rec'])} requests"]
    name, cardv, rtype, ptype, kw = obs["rec"][0]
    if name != rt.svc.canonical_route(m):
        why.append(f"route {name!r} is not the gRPC path {rt.svc.canonical_route(m)!r} of this RPC")
    if cardv is not Cardinality((m.cs, m.ss)):
        why.append(f"stub used cardinality {cardv.name} for client_streaming={m.cs} server_streaming={m.ss}")
    if rtype is not rt.classes[m.in_t] or ptype is not rt.classes[m.out_t]:
        why.append(f"stub passed types ({rt.typename(rtype)}, {rt.typename(ptype)}), declared ({m.in_t}, {m.out_t})")
    kwc = case.get("kwargs", {"stub": [0, 0, 0], "call": [0, 0, 0]})
    skw, ckw = obs["kw_objs"]
    for k in ("timeout", "deadline", "metadata"):
        want = ckw[k] if k in ckw else skw.get(k)
        if kw.get(k, "missing") is not want and kw.get(k, "missing") != want:
            why.append(f"{k} given to channel.request is {kw.get(k)!r}, expected {want!r} (call level wins over stub level)")
    if case.get("reqonly"):
        return why   # resolved timeout is 0: the call is expired before it starts; nothing further to expect
    if case.get("kwargs"):
        if len(obs["server_seen"]) != 1:
            why.append(f"server saw {len(obs['server_seen'])} requests")
        else:
            md, remaining = obs["server_seen"][0]
            mine = sorted((k, v) for k, v in (md or []) if k.startswith("c11-"))
            want_md = ckw.get("metadata", skw.get("metadata"))
            want_md = sorted(want_md.items() if isinstance(want_md, dict) else (want_md or []))
            if mine != want_md:
                why.append(f"server read metadata {mine}, expected {want_md}")
            t = ckw.get("timeout", skw.get("timeout"))
            d = (D_CALL if "deadline" in ckw else D_STUB if "deadline" in skw else None)
            eff = min([x for x in (t, d) if x is not None], default=None)
            if eff is None:
                if remaining is not None:
                    why.append(f"server has a deadline ({remaining:.1f}s) though none was set")
            elif remaining is None or abs(remaining - eff) > 9.0:
                why.append(f"server deadline has {remaining} s remaining, expected about {eff}")
    # ---- which handler ran, with what
    sc = case["scripts"].get(py)
    if sc is None:
        if obs["log"]:
            why.append(f"handler(s) {[e[0] for e in obs['log']]} ran although {py} is not overridden")
        if obs["end"] != ("grpc", 12) or obs["msgs"]:
            why.append(f"un-overridden method answered {obs['end']} with {len(obs['msgs'])} messages, expected UNIMPLEMENTED")
        return why
    want_in = ("many", snaps) if m.cs else ("one", snaps[0])
    ran = [(e[0], e[1]) for e in obs["log"]]
    if len(ran) != 1:
        why.append(f"{len(ran)} handler bodies ran ({[r[0] for r in ran]}), expected exactly one ({py})")
    elif ran[0][0] != py:
        why.append(f"handler {ran[0][0]} ran instead of {py}")
    elif tuple(ran[0][1]) != want_in:
        why.append(f"handler received {ran[0][1]}, caller sent {want_in}")
    # ---- what the caller got
    want_msgs = [rt.snap(rt.value(r)) for r in sc["resp"]] if sc["gen"] else (
        [rt.snap(rt.value(sc["resp"][0]))] if (sc["resp"] and sc["status"] is None and not m.ss) else [])
    want_end = ("done",) if sc["status"] is None else ("grpc", sc["status"])
    if not m.ss and sc["status"] is not None:
        want_msgs = []
    if obs["end"] != want_end:
        why.append(f"caller ended with {obs['end']}, handler ended with {want_end}")
    if case.get("iter_kind") == "open" and sc["status"] is not None:
        # the request stream was still open when the handler ended with a status: grpclib resets the HTTP/2 stream, and responses
        # already yielded may or may not have been handed to the caller by then (transport behaviour, outside the model): what the
        # property asks is that the STATUS reaches the caller and that nothing else than the handler's responses, in order, does
        if obs["msgs"] != want_msgs[:len(obs["msgs"])]:
            why.append(f"caller received {obs['msgs'][:3]}, not a prefix of what the handler produced {want_msgs[:3]}")
    elif obs["msgs"] != want_msgs:
        why.append(f"caller received {len(obs['msgs'])} message(s) {obs['msgs'][:3]}, handler produced {len(want_msgs)} {want_msgs[:3]}")
    return why


# ======================================================================================
# conversational protocols (coq/Model/GrpcConv.v): request source x handler tables run over the REAL generated
# stub + Base through ChannelFor, compared with the model's sequential dialogue and with the small-step system
# evaluated in Coq under a random scheduler
# ======================================================================================
CONV_FUEL = 600


def _pool(rt, full):
    return list(range(len(pg.sample_kwargs(rt.classes[full].__name__))))


def _reply_table(rng, rt, key_t, val_t):
    """tbl.get(bytes(last), dflt): one row per sample value of the OTHER side's class (so the choice really
    depends on what was just received), rows in random order, sometimes a row missing (-> the default)"""
    ks = _pool(rt, key_t)
    rng.shuffle(ks)
    if len(ks) > 1 and rng.random() < 0.3:
        ks = ks[:-1]
    vs = _pool(rt, val_t)
    return [((key_t, k), (val_t, rng.choice(vs))) for k in ks], (val_t, rng.choice(vs))


def conv_protocol(rng, rt, m, family):
    """a protocol of the table vocabulary with a FINITE dialogue by construction: a causal sequence of events
    Q (the caller produces a request, the handler reads it) / A (the handler emits a response) is projected on
    the two sides; the source awaits a subset of the responses emitted before the point where it stands."""
    def y_src():
        if rng.random() < 0.55:
            tbl, d = _reply_table(rng, rt, m.out_t, m.in_t)
            return ("reply", tbl, d)
        return ("yield", pick_ref(rng, m.in_t, rt))

    def y_hdl():
        if rng.random() < 0.55:
            tbl, d = _reply_table(rng, rt, m.in_t, m.out_t)
            return ("reply", tbl, d)
        return ("yield", pick_ref(rng, m.out_t, rt))

    status, skip_await, src_cut, hdl_cut, tail_recv, tail_await, variant = None, 0.0, None, None, 1, 0, None
    if family == "ping-pong":
        ev = "QA" * rng.randint(1, 4)
    elif family == "server-first greeting":
        ev = "A" + "QA" * rng.randint(0, 3)
    elif family == "bursts":
        ev = "".join(rng.choice(["Q", "QQ", "QQQ"]) + rng.choice(["A", "AA", "AAA", ""]) for _ in range(rng.randint(1, 3)))
        ev = rng.choice(["", "A", "AA"]) + ev
        skip_await = 0.3
    elif family == "early end (client)":
        ev = "QA" * rng.randint(2, 4)
        src_cut = True
        tail_recv = rng.randint(1, 2)
    elif family == "server ends first":
        # the handler finishes WITHOUT having been told that the request stream has ended (known finding C11-K2):
        #  a: OK status, the source never ends (it waits for a response that never comes) -> the model's answer is
        #     the same under every schedule (ProtocolError) and is compared;
        #  b: OK status, the source ends -> the outcome depends on the schedule (C11_server_ends_first_refuted);
        #  c: non-OK status -> grpclib resets the stream, responses in flight may be dropped (not modelled)
        ev = rng.choice(["", "A"]) + "QA" * rng.randint(2, 4)
        hdl_cut = True
        variant = rng.choice("aab") if rng.random() < 0.8 else "c"
        status = rng.choice([5, 7, 13]) if variant == "c" else None
        tail_recv = 0
        tail_await = 1 if variant == "a" else 0
    else:  # random
        ev = "".join(rng.choice("QQA") if rng.random() < 0.8 else "AA" for _ in range(rng.randint(0, 7)))
        skip_await = rng.choice([0.0, 0.3, 1.0])
        status = rng.choice([None, None, None, 3, 16])
        tail_recv = rng.choice([1, 1, 2])
    src, hdl = [], []
    for e in ev:
        if e == "Q":
            src.append(y_src())
            hdl.append(("recv",))
        else:
            hdl.append(y_hdl())
            if rng.random() >= skip_await:
                src.append(("await",))
    if src_cut and len(src) > 1:
        src = src[:rng.randrange(1, len(src))]          # the source ends early: the handler's next reads see the end
    if hdl_cut and len(hdl) > 1:
        hdl = hdl[:rng.randrange(1, len(hdl))]          # the handler ends early: later requests are never read
    if tail_await and not tail_recv:
        # waits for more responses than the handler ever emits: the source never ends
        n_emit = sum(1 for ins in hdl if ins[0] != "recv")
        n_await = sum(1 for ins in src if ins[0] == "await")
        src += [("await",)] * (max(0, n_emit - n_await) + tail_await)
    else:
        hdl += [("recv",)] * tail_recv                  # reads after the source has ended: None
    out = {"family": family, "src": src, "hdl": hdl, "status": status}
    if variant:
        out["variant"] = variant
    return out


def seq_protocol(rng, rt, m):
    """the three helpers that send first: the request source cannot wait for a response (it would never get one)"""
    n = rng.randint(0, 3) if m.cs else 1
    src = [("yield", pick_ref(rng, m.in_t, rt)) for _ in range(n)]
    k = rng.randint(0, n + 1) if m.cs else 1
    hdl = [("recv",)] * k
    status = rng.choice([None, None, None, 5, 9])
    if m.ss:
        for _ in range(rng.randint(0, 3)):
            tbl, d = _reply_table(rng, rt, m.in_t, m.out_t)
            hdl.append(("reply", tbl, d) if rng.random() < 0.6 else ("yield", pick_ref(rng, m.out_t, rt)))
    elif status is None:
        tbl, d = _reply_table(rng, rt, m.in_t, m.out_t)
        hdl.append(("reply", tbl, d) if rng.random() < 0.6 else ("yield", pick_ref(rng, m.out_t, rt)))
    return {"family": f"send-first helper cs={int(m.cs)} ss={int(m.ss)}", "src": src, "hdl": hdl, "status": status}


def _tbl_lit(rt, tbl):
    return "[" + "; ".join(f"({lib.coq_bytes(rt.snap(rt.value(k))[1])}, {msg_lit(rt.snap(rt.value(v)))})" for k, v in tbl) + "]"


def src_prog_lit(rt, prog):
    out = []
    for ins in prog:
        if ins[0] == "yield":
            out.append(f"SI_yield {msg_lit(rt.snap(rt.value(ins[1])))}")
        elif ins[0] == "await":
            out.append("SI_await")
        else:
            out.append(f"SI_reply {_tbl_lit(rt, ins[1])} {msg_lit(rt.snap(rt.value(ins[2])))}")
    return "[" + "; ".join(out) + "]"


def hdl_prog_lit(rt, prog):
    out = []
    for ins in prog:
        if ins[0] == "yield":
            out.append(f"HI_yield {msg_lit(rt.snap(rt.value(ins[1])))}")
        elif ins[0] == "recv":
            out.append("HI_recv")
        else:
            out.append(f"HI_reply {_tbl_lit(rt, ins[1])} {msg_lit(rt.snap(rt.value(ins[2])))}")
    return "[" + "; ".join(out) + "]"


def _lookup(rt, tbl, last, dflt):
    """tbl.get(bytes(last), dflt), first matching row"""
    if last is not None:
        key = bytes(last)
        for k, v in tbl:
            if bytes(rt.value(k)) == key:
                return rt.value(v)
    return rt.value(dflt)


async def conv_call(rt, i, proto):
    """run one protocol over the real stub + Base. The request generator runs where the real code runs it (inside
    ServiceStub._send_messages); it learns about responses only through an asyncio.Queue the caller's loop feeds."""
    import grpclib
    from grpclib.testing import ChannelFor

    m, py = rt.svc.methods[i], rt.py[i]
    obs = {"yielded": [], "read": [], "emitted": [], "received": [], "end": ("done",), "handler_runs": 0, "saw_end": False}
    status = None if proto["status"] is None else grpclib.const.Status(proto["status"])

    async def run_hdl(recv):
        last = None
        for ins in proto["hdl"]:
            if ins[0] == "recv":
                last = await recv()
                if last is not None:
                    obs["read"].append(rt.snap(last))
                else:
                    obs["saw_end"] = True
            else:
                v = rt.value(ins[1]) if ins[0] == "yield" else _lookup(rt, ins[1], last, ins[2])
                obs["emitted"].append(rt.snap(v))
                yield v
        if status is not None:
            raise grpclib.GRPCError(status, "scripted")

    def receiver(request):
        if m.cs:
            it = request.__aiter__()

            async def recv():
                try:
                    return await it.__anext__()
                except StopAsyncIteration:
                    return None
        else:
            box = [request]

            async def recv():   # the adapter has already awaited stream.recv_message(): the handler's first read
                return box.pop() if box else None
        return recv

    if m.ss:
        async def h(self, request):
            obs["handler_runs"] += 1
            async for v in run_hdl(receiver(request)):
                yield v
    else:
        async def h(self, request):
            obs["handler_runs"] += 1
            out = None
            async for v in run_hdl(receiver(request)):
                out = v
            return out
    h.__name__ = py
    impl = type("Impl", (rt.Base,), {py: h})()
    inbox = asyncio.Queue()

    async def source():
        last = None
        for ins in proto["src"]:
            if ins[0] == "await":
                last = await inbox.get()
                continue
            v = rt.value(ins[1]) if ins[0] == "yield" else _lookup(rt, ins[1], last, ins[2])
            obs["yielded"].append(rt.snap(v))
            yield v

    async def body():
        async with ChannelFor([impl]) as ch:
            stub = rt.Stub(ch)
            try:
                if m.cs:
                    arg = source()
                else:
                    ins = proto["src"][0]
                    arg = rt.value(ins[1])
                    obs["yielded"].append(rt.snap(arg))
                res = getattr(stub, py)(arg)
                if m.ss:
                    async for r in res:
                        obs["received"].append(rt.snap(r))
                        inbox.put_nowait(r)
                else:
                    r = await res
                    obs["received"].append(rt.snap(r))
            except grpclib.GRPCError as e:
                obs["end"] = ("grpc", e.status.value)
                if not m.ss:
                    obs["received"] = []
            except asyncio.CancelledError:
                if asyncio.current_task().cancelling():
                    raise        # the watchdog below cancelled this call
                # nobody cancelled this call: a CancelledError here replaced the handler's outcome on its way to the caller
                obs["end"] = ("exc", "CancelledError surfaced to the caller although nobody cancelled the call")
            except Exception as e:  # noqa
                obs["end"] = ("exc", f"{type(e).__name__}: {e}")
                if not m.ss:
                    obs["received"] = []
            await asyncio.sleep(0)
    before = asyncio.all_tasks()
    try:
        await asyncio.wait_for(body(), CONV_TIMEOUT)
    except asyncio.TimeoutError:
        obs["end"] = ("hang", f"no result within {CONV_TIMEOUT}s")
    except Exception as e:  # noqa
        obs["end"] = ("exc", f"harness/transport: {type(e).__name__}: {e}")
    # a sender task whose generator waits for a response that never comes (the handler has finished) stays pending
    left = [t for t in asyncio.all_tasks() if t not in before and t is not asyncio.current_task()]
    for t in left:
        t.cancel()
    if left:
        await asyncio.gather(*left, return_exceptions=True)
    return obs


def conv_oracle(m, proto, obs):
    """the property on one conversational call: it completes; the caller received exactly what the handler
    emitted, in order; the handler read, in order, a prefix of what the caller's generator produced (all of it
    unless the handler stopped reading); exactly one handler body ran; the handler's status reached the caller"""
    why = []
    if obs["end"][0] == "hang":
        return [f"the conversational call deadlocked ({obs['end'][1]}): the source had produced {len(obs['yielded'])} request(s), the "
                f"handler had read {len(obs['read'])} and emitted {len(obs['emitted'])}, the caller had received {len(obs['received'])}"]
    if obs["handler_runs"] != 1:
        why.append(f"{obs['handler_runs']} handler bodies ran")
    if obs["read"] != obs["yielded"][:len(obs["read"])]:
        why.append(f"the handler read {obs['read'][:4]}, the caller's generator produced {obs['yielded'][:4]}")
    want_end = ("done",) if proto["status"] is None else ("grpc", proto["status"])
    if m.ss:
        if obs["received"] != obs["emitted"]:
            why.append(f"the caller received {len(obs['received'])} response(s) {obs['received'][:4]}, the handler emitted "
                       f"{len(obs['emitted'])} {obs['emitted'][:4]}")
    else:
        want = obs["emitted"][-1:] if proto["status"] is None else []
        if obs["received"] != want:
            why.append(f"the caller received {obs['received']}, the handler returned {want}")
    if obs["end"] != want_end:
        why.append(f"the call ended with {obs['end']}, the handler with {want_end}")
    return why


def k2_shape(proto, obs):
    """is this failure of a `server ends first` protocol the known finding C11-K2 and nothing else: the right handler
    ran once on a prefix of the produced requests, and either (OK status) every response arrived and the iteration ended
    with grpclib's ProtocolError, or (non-OK status) a prefix of the responses arrived and then that status / ProtocolError"""
    if obs["end"][0] == "hang" or obs["handler_runs"] != 1 or obs["read"] != obs["yielded"][:len(obs["read"])]:
        return False
    not_ended = obs["end"][0] == "exc" and "Outgoing stream was not ended" in obs["end"][1]
    if proto["status"] is None:
        return obs["received"] == obs["emitted"] and not_ended
    return obs["received"] == obs["emitted"][:len(obs["received"])] and (not_ended or obs["end"] == ("grpc", proto["status"]))


def conv_input(rt, i, proto, obs=None):
    d = {"service": rt.describe(), "case": {"kind": "conv", "method": i, "py": rt.py[i], "protocol": proto},
         "proto_files": rt.bundle.files, "types": {k: list(v) for k, v in rt.bundle.types.items()}}
    if obs is not None:
        d["observed"] = {k: ([(t, b.hex()) for t, b in v] if isinstance(v, list) else v) for k, v in obs.items()}
    return d


HELPER_OF = {(False, False): "H_unary_unary", (False, True): "H_unary_stream", (True, False): "H_stream_unary", (True, True): "H_stream_stream"}


def large_echo_stage(ctx):
    """oracle only: a stream-stream echo whose request stream is a plain LIST and whose total volume (12 x 1 MiB) exceeds grpclib's
    flow-control windows (4 MiB): the handler answers each request as it arrives, so sending has to overlap receiving for EVERY kind
    of request source (seeded change C11-8: plain iterables sent inline before the response loop). Transport behaviour is outside
    the Coq model; what is required here is the property's own clause - every response, equal and in order - within a time limit."""
    import subprocess
    root = f"c11big{os.getpid()}"
    protos = {"big/echo.proto": 'syntax = "proto3";\npackage big;\nmessage Blob { bytes data = 1; int32 seq = 2; }\n'
                                 'service Echo { rpc Chat (stream Blob) returns (stream Blob); }\n'}
    rc, out, _ = pu.generate(ctx.work, protos, root)
    if rc != 0:
        ctx.fail("oracle", "the plugin fails on the echo service", cls=None, input={"protos": protos}, observed=out[-500:])
        return
    code = f'''
import asyncio, sys
from grpclib.testing import ChannelFor
import {root}.big as b
N, SIZE = 12, 1 << 20
class Impl(b.EchoBase):
    async def chat(self, it):
        async for r in it:
            yield b.Blob(data=r.data, seq=r.seq + 1000)
async def main(kind):
    reqs = [b.Blob(data=bytes([i]) * SIZE, seq=i) for i in range(N)]
    async def agen():
        for r in reqs:
            yield r
    src = {{"list": reqs, "tuple": tuple(reqs), "gen": (r for r in reqs), "agen": agen()}}[kind]
    got = []
    async with ChannelFor([Impl()]) as ch:
        async for r in b.EchoStub(ch).chat(src):
            got.append((r.seq, len(r.data), r.data[:1]))
    return got
for kind in ("list", "gen", "agen"):
    try:
        got = asyncio.run(asyncio.wait_for(main(kind), 40))
        ok = got == [(i + 1000, 1 << 20, bytes([i])) for i in range(12)]
        print(kind, "OK" if ok else "WRONG " + repr(got)[:200])
    except asyncio.TimeoutError:
        print(kind, "HANG")
    except BaseException as e:
        print(kind, "EXC", type(e).__name__, str(e)[:200])
'''
    rc, out = pu.run_in_subprocess(ctx.work, code, timeout=200)
    ctx.count("large_echo_runs")
    lines = [l for l in out.splitlines() if l.split(" ")[0] in ("list", "gen", "agen")]
    if rc != 0 or len(lines) != 3:
        ctx.fail("oracle", "the large bidirectional echo could not be run", cls=None, input={"protos": protos}, observed=out[-800:])
        return
    for l in lines:
        kind, verdict = l.split(" ", 1)
        if verdict != "OK":
            ctx.fail("oracle", f"stream-stream echo of 12 x 1 MiB with a {kind} request source: {verdict} (the handler answers each request as it "
                     "arrives; the caller must receive all 12 responses, equal and in order)", cls=None,
                     input={"protos": protos, "request_source": kind, "messages": 12, "bytes_each": 1 << 20})


def reserved_names_stage(ctx):
    """RPCs whose Python name is an instance attribute of ServiceStub (channel / timeout / deadline / metadata): __init__ stores the
    attribute on the instance, which shadows the generated method (known finding C11-K3, found by the source translation of
    ServiceStub.__init__: C11Src_shadowed_method_model_witness). The generators keep away from these names (RESERVED_PY); this stage
    is the witness, with a control method next to them."""
    root = f"c11res{os.getpid()}"
    protos = {"res/res.proto": 'syntax = "proto3";\npackage res;\nmessage Req { int32 a = 1; }\nmessage Resp { int32 n = 1; }\n'
                               'service Knobs {\n  rpc Timeout (Req) returns (Resp);\n  rpc Deadline (Req) returns (Resp);\n'
                               '  rpc Metadata (Req) returns (Resp);\n  rpc Channel (Req) returns (Resp);\n  rpc Plain (Req) returns (Resp);\n}\n'}
    rc, out, _ = pu.generate(ctx.work, protos, root)
    if rc != 0:
        ctx.fail("oracle", "the plugin fails on a service whose RPCs are called Timeout / Deadline / Metadata / Channel", cls=None,
                 input={"protos": protos}, observed=out[-500:])
        return
    code = f"""
import asyncio
from grpclib.testing import ChannelFor
import {root}.res as r
class Impl(r.KnobsBase):
    async def timeout(self, q): return r.Resp(n=q.a + 1)
    async def deadline(self, q): return r.Resp(n=q.a + 2)
    async def metadata(self, q): return r.Resp(n=q.a + 3)
    async def channel(self, q): return r.Resp(n=q.a + 4)
    async def plain(self, q): return r.Resp(n=q.a + 5)
async def main():
    async with ChannelFor([Impl()]) as ch:
        stub = r.KnobsStub(ch)
        for k, (name, add) in enumerate((("timeout", 1), ("deadline", 2), ("metadata", 3), ("channel", 4), ("plain", 5))):
            try:
                got = await asyncio.wait_for(getattr(stub, name)(r.Req(a=10 * k)), 20)
                print("RES", name, "OK" if got == r.Resp(n=10 * k + add) else "WRONG " + repr(got))
            except BaseException as e:
                print("RES", name, "EXC", type(e).__name__, str(e)[:120])
asyncio.run(main())
"""
    rc, out = pu.run_in_subprocess(ctx.work, code, timeout=200)
    lines = [l.split(" ", 2) for l in out.splitlines() if l.startswith("RES ")]
    if rc != 0 or len(lines) != 5:
        ctx.fail("oracle", "the reserved-name service could not be run", cls=None, input={"protos": protos}, observed=out[-800:])
        return
    for _, name, verdict in lines:
        ctx.count("reserved_name_calls")
        if verdict != "OK":
            shadow = name in pg.RESERVED_PY and verdict.startswith("EXC TypeError") and "not callable" in verdict
            ctx.fail("oracle", f"service Knobs, rpc {name.capitalize()}: the call through the generated stub gives `{verdict}` instead of the handler's response",
                     cls="stub-attribute-shadows-method" if shadow else None, input={"protos": protos, "method": name, "observed": verdict})


def conv_stage(ctx, rts):
    """returns nothing; records failures in ctx"""
    rng = ctx.rng
    families = ["ping-pong", "server-first greeting", "bursts", "early end (client)", "random", "server ends first"]
    work = []
    full = [rt for rt in rts if len(rt.svc.methods) == 4 and not rt.svc.collision
            and {(m.cs, m.ss) for m in rt.svc.methods} == set(CARD_NUM)]
    bidi = [(rt, i) for rt in rts for i, m in enumerate(rt.svc.methods) if m.cs and m.ss and not rt.dup_py(i)]
    reps = 6 if ctx.thorough else 2
    for rt, i in (bidi if ctx.thorough else bidi[:8]):
        for fam in families:
            for _ in range(reps if fam != "random" else 2 * reps):
                work.append((rt, i, conv_protocol(rng, rt, rt.svc.methods[i], fam)))
    for rt in (full[:6] if ctx.thorough else full[:2]):
        for i, m in enumerate(rt.svc.methods):
            if not (m.cs and m.ss):
                for _ in range(3 * reps):
                    work.append((rt, i, seq_protocol(rng, rt, m)))
    if not bidi:
        ctx.fail("crash", "no stream-stream method was generated: the conversational protocols were not run", no_input=True,
                 theorem_or_correspondence="C11_conversation_complete (tie)")
        return
    hangs = [0]

    async def run_all():
        out = []
        for rt, i, proto in work:
            if hangs[0] >= 2:
                out.append(None)
                continue
            try:
                obs = await conv_call(rt, i, proto)
            except Exception as e:  # noqa
                obs = {"yielded": [], "read": [], "emitted": [], "received": [], "handler_runs": 0, "saw_end": False,
                       "end": ("exc", f"harness: {type(e).__name__}: {e}")}
            if obs["end"][0] == "hang":
                hangs[0] += 1
            out.append(obs)
        return out
    t0 = time.time()
    results = asyncio.run(run_all())
    ctx.notes.append(f"{len(work)} conversational protocols over ChannelFor: {time.time() - t0:.1f}s")
    if hangs[0]:
        ctx.notes.append(f"{hangs[0]} conversational protocols deadlocked (further ones skipped after 2)")
    pairs, descr = [], []
    for (rt, i, proto), obs in zip(work, results):
        if obs is None:
            continue
        m = rt.svc.methods[i]
        ctx.cov["evaluations"] += 1
        ctx.count("conversation:" + proto["family"])
        ctx.seen_nontrivial(json.dumps([rt.literal(), i, proto], sort_keys=True, default=repr))
        try:
            why = conv_oracle(m, proto, obs)
        except Exception as e:  # noqa
            why = [f"oracle evaluation raised {type(e).__name__}: {e}"]
        if why:
            if proto["family"] == "server ends first" and k2_shape(proto, obs):
                # one line per defect (lib de-duplicates on the text); the observation goes into the detail
                ctx.fail("oracle", "a stream-stream handler that finishes without reading the request stream to its end: the caller "
                                   "does not get the handler's outcome (ProtocolError('Outgoing stream was not ended') from grpclib's "
                                   "client when ServiceStub._stream_stream leaves `async with` before its sender task has called "
                                   "stream.end(); with a non-OK status the last responses can be dropped as well)",
                         cls="server-ends-first", input=conv_input(rt, i, proto, obs), feature="conversation: " + proto["family"],
                         detail="; ".join(why)[:900])
            else:
                ctx.fail("oracle", "; ".join(why)[:900], input=conv_input(rt, i, proto, obs), feature="conversation: " + proto["family"])
        if obs["end"][0] == "hang":
            continue      # (the model's answer for a finite dialogue is a completed call: nothing to compare with)
        if proto.get("variant") in ("b", "c"):
            continue      # (schedule-dependent outcome / stream reset: see conv_protocol)
        st = "None" if proto["status"] is None else f"(Some ({proto['status']})%Z)"
        sp, hp = src_prog_lit(rt, proto["src"]), hdl_prog_lit(rt, proto["hdl"])
        expected = cl([cl([cv_msg(x) for x in obs["read"]]), cl([cv_msg(x) for x in obs["received"]]), cv_end(obs["end"]),
                       lib.cbool(obs["saw_end"])])
        choices = "[" + "; ".join(f"{rng.randrange(3)}%nat" for _ in range(rng.randint(1, 7))) + "]"
        mode = f"(helper_mode {HELPER_OF[(m.cs, m.ss)]}) {lib.coq_bool(not m.ss)}"
        if m.cs and m.ss and proto["family"] != "server ends first":
            # (the dialogue's third component is the handler's status: what the caller gets when the handler was told
            #  about the end of the request stream, C11_conversation_complete)
            pairs.append((f"cv_transcript (table_dialogue (fuel_of {CONV_FUEL}) {sp} {hp} {st})", expected))
            descr.append(("sequential dialogue (Dlg)", rt, i, proto, obs))
        pairs.append((f"cv_final (table_system {mode} (fuel_of {CONV_FUEL}) {choices} {sp} {hp} {st})", expected))
        descr.append((f"small-step system under the scheduler choices {choices}", rt, i, proto, obs))
    t1 = time.time()
    try:
        bad = lib.coq_compare(ctx, "c11conv", imports_with(rts), pairs, chunk=60)
        ctx.notes.append(f"{len(pairs)} conversational model evaluations in Coq: {time.time() - t1:.1f}s")
    except RuntimeError as e:
        ctx.fail("corr", "the conversational model could not be evaluated on the generated protocols (Model/GrpcConv.v does not build "
                         "or a case is ill-formed)", no_input=True,
                 theorem_or_correspondence="T2 correspondence Model/GrpcConv.v <-> generated stub/base + betterproto.grpc", detail=str(e)[-1500:])
        bad = []
    ctx.cov["disagreements_checked"] += len(pairs)
    for idx in bad[:6]:
        what, rt, i, proto, obs = descr[idx]
        model_val = lib.coq_eval(ctx, imports_with([rt]), pairs[idx][0])
        ctx.fail("corr", f"model and implementation disagree on a conversational protocol ({proto['family']}): {what}",
                 input=conv_input(rt, i, proto, obs), expected_model=model_val[-1500:], observed_impl=pairs[idx][1][:1500],
                 theorem_or_correspondence="T2 correspondence Model/GrpcConv.v <-> generated stub/base + betterproto.grpc")
    if len(bad) > 6:
        ctx.notes.append(f"{len(bad)} conversational correspondence disagreements in total, 6 reported")
    if pairs:
        ctx.sample({"case": descr[0][0], "service": descr[0][1].describe()["service"], "feature": "conversation: " + descr[0][3]["family"],
                    "model_expr": pairs[0][0][:400], "impl": pairs[0][1][:400]})


# ======================================================================================
# run
# ======================================================================================
def corpus_bundles(ctx):
    """regression inputs (corpus/C11*.json): witnesses of the known finding and of the fix; they run first"""
    import glob

    out = []
    for n, path in enumerate(sorted(glob.glob(os.path.join(lib.VERIF, "corpus", "C11*.json")))):
        d = json.load(open(path))
        svcs = [pg.Svc(i, s["pkg"], s["name"], s["file"],
                       [pg.Meth(m["name"], m["cs"], m["ss"], m["in"], m["out"]) for m in s["methods"]], collision=s.get("collision", False))
                for i, s in enumerate(d["services"])]
        out.append(pg.Bundle(f"c11c{os.getpid()}_{ctx.seed}_{n}", d["files"], svcs, {k: tuple(v) for k, v in d["types"].items()}))
    return out


def build_bundles(ctx):
    from betterproto.compile.naming import pythonize_method_name

    nb = 3 if not ctx.thorough else 28
    rts = []
    for bundle in corpus_bundles(ctx):
        rc, out, _ = pu.generate(ctx.work, bundle.files, bundle.root)
        if rc != 0:
            ctx.fail("oracle", "the plugin failed on a corpus service", input={"files": bundle.files, "output": out[-1500:]})
            continue
        for svc in bundle.services:
            try:
                rts.append(Rt(bundle, svc, ctx.work))
                ctx.count("corpus_services")
            except Exception as e:  # noqa
                ctx.fail("oracle", f"corpus service does not import: {type(e).__name__}: {e}",
                         cls="pyname-collision" if svc.collision else None, input={"files": bundle.files})
    # the last bundle(s) are compiled with the plugin option pydantic_dataclasses: stub, server base and the package's
    # messages must then agree on the pydantic flavour of the well-known types as well
    npyd = 1 if not ctx.thorough else 4
    for b in range(nb + npyd):
        pyd = b >= nb
        root = f"c11{'p' if pyd else 'g'}{os.getpid()}_{ctx.seed}_{b}"
        n = 7
        bundle = pg.make_bundle(ctx.rng, root, n, pythonize_method_name, with_nopkg=True,
                                collision_at=(5, 6) if b == 0 or ctx.thorough else (6,), full_matrix_at=(1,))
        rc, out, _ = pu.generate(ctx.work, bundle.files, root, options=("pydantic_dataclasses",) if pyd else ())
        if rc != 0:
            ctx.fail("oracle", "the plugin failed on a generated service bundle", input={"files": bundle.files, "output": out[-1500:]})
            continue
        for svc in bundle.services:
            try:
                rts.append(Rt(bundle, svc, ctx.work, pydantic=pyd))
                ctx.count("pydantic_services", 1 if pyd else 0)
            except Exception as e:  # noqa
                ctx.fail("oracle", f"generated package{' (pydantic_dataclasses)' if pyd else ''} does not import / lacks the stub or base class: {type(e).__name__}: {e}",
                         cls="pyname-collision" if svc.collision else None,
                         input={"files": bundle.files, "service": svc.name, "traceback": traceback.format_exc()[-1500:]})
    return rts


def service_defs(rts):
    return "".join(f"\nDefinition {rt.coq_name} : service := {rt.literal()}." for rt in rts)


def imports_with(rts):
    # lib.coq_compare writes `From BP Require Import Base.Prelude <imports>.` — the service literals are
    # appended as Definitions so that the cases can name them (keeps the case files small)
    sd = service_defs(rts)   # (interns the strings of the services before the table is printed)
    return IMPORTS + "." + intern_defs() + sd + "\nDefinition c11_cases_follow := tt"


def replay_input(rt, case, obs=None):
    d = {"service": rt.describe(), "case": {k: v for k, v in case.items()}, "proto_files": rt.bundle.files,
         "types": {k: list(v) for k, v in rt.bundle.types.items()}}
    if obs is not None:
        d["observed"] = {"channel_request": [(r[0], r[1].name, rt.typename(r[2]), rt.typename(r[3]), sorted(r[4])) for r in obs.get("rec", [])],
                         "handlers_ran": [(e[0], repr(e[1])[:300]) for e in obs.get("log", [])],
                         "caller_received": [(t, b.hex()) for t, b in obs.get("msgs", [])], "caller_end": list(obs.get("end", ()))}
    return d


def run(ctx):
    logging.disable(logging.CRITICAL)
    source_tie_stage(ctx)
    t0 = time.time()
    rts = build_bundles(ctx)
    ctx.count("services", len(rts))
    ctx.notes.append(f"plugin + import of {len(rts)} services: {time.time() - t0:.1f}s")
    pairs, descr = [], []

    def add(model, expected, d):
        pairs.append((model, expected))
        descr.append(d)

    # ------------------------------------------------------------------ reflection of the classes
    for rt in rts:
        svc = rt.svc
        ctx.count(f"methods_per_service={len(svc.methods)}")
        for m in svc.methods:
            ctx.count(f"cardinality cs={int(m.cs)} ss={int(m.ss)}")
            ctx.count("type:" + ("google" if m.in_t.startswith(".google") else "local" if rt.bundle.types[m.in_t][0] == svc.pkg else "other-package"))
            ctx.count("type:" + ("google" if m.out_t.startswith(".google") else "local" if rt.bundle.types[m.out_t][0] == svc.pkg else "other-package"))
        pys = list(dict.fromkeys(rt.py))
        routes = [svc.canonical_route(m) for m in svc.methods] + ["/" + svc.name + "/NoSuchMethod", "/nope"]
        try:
            add(f"cv_stub_lookup {rt.coq_name} [{'; '.join(coq_str(p) for p in pys)}]", reflect_stub(rt), ("reflect stub", rt, None))
            mcv, mp = reflect_mapping(rt, routes)
            add(f"cv_dispatch {rt.coq_name} [{'; '.join(coq_str(r) for r in routes)}]", mcv, ("reflect mapping", rt, None))
            add(f"cv_adapters {rt.coq_name} [{'; '.join(coq_str(p) for p in pys)}]", reflect_adapters(rt), ("reflect adapters", rt, None))
        except Exception as e:  # noqa
            ctx.fail("oracle", f"reflection of the generated classes raised {type(e).__name__}: {e}",
                     input=replay_input(rt, {"kind": "reflect"}), traceback=traceback.format_exc()[-1500:])
            continue
        # oracle on the reflected mapping: one entry per RPC, at its gRPC path, with the declared cardinality and types
        from grpclib.const import Cardinality
        for i, m in enumerate(svc.methods):
            h = mp.get(svc.canonical_route(m))
            cls = "pyname-collision" if rt.shadowed(i) else None
            if h is None:
                ctx.fail("oracle", f"__mapping__ has no entry for {svc.canonical_route(m)}", cls=cls, input=replay_input(rt, {"kind": "reflect", "method": i}))
                continue
            fn = getattr(h.func, "__name__", "")
            if (h.cardinality is not Cardinality((m.cs, m.ss)) or h.request_type is not rt.classes[m.in_t]
                    or h.reply_type is not rt.classes[m.out_t] or not fn.endswith("__rpc_" + rt.py[i])):
                ctx.fail("oracle", f"__mapping__ entry of {m.name}: {h.cardinality.name}, {rt.typename(h.request_type)}, "
                                   f"{rt.typename(h.reply_type)}, {fn}; declared cs={m.cs} ss={m.ss} {m.in_t} {m.out_t}",
                         cls=cls, input=replay_input(rt, {"kind": "reflect", "method": i}))
        if len(mp) != len({svc.canonical_route(m) for m in svc.methods}):
            ctx.fail("oracle", f"__mapping__ has {len(mp)} entries for {len(svc.methods)} RPCs", input=replay_input(rt, {"kind": "reflect"}))
        ctx.cov["evaluations"] += 3 + len(svc.methods)

    # ------------------------------------------------------------------ real calls
    work = []
    for rt in rts:
        for i in range(len(rt.svc.methods)):
            for c in call_cases(ctx, rt, i, ctx.thorough):
                work.append((rt, c))
        if rt.svc.collision:
            for c in collision_raw_cases(ctx, rt):
                work.append((rt, c))
    full = [rt for rt in rts if len(rt.svc.methods) == 4 and not rt.svc.collision
            and {(m.cs, m.ss) for m in rt.svc.methods} == set(CARD_NUM)]
    for rt in (full[:6] if ctx.thorough else full[:1]):
        for c in kwargs_cases(ctx, rt):
            work.append((rt, c))
    if not full:
        ctx.fail("crash", "no full-matrix service was generated: the 64 kwargs combinations were not run", no_input=True,
                 theorem_or_correspondence="kwargs precedence")

    hangs, conv_hangs = [0], [0]

    async def run_all():
        results = []
        for rt, c in work:
            conv = c.get("iter_kind") == "conversation"
            if hangs[0] >= MAX_HANGS or (conv and conv_hangs[0] >= 2):
                results.append(None)
                continue
            if c["kind"] == "call" and rt.dup_py(c["method"]):
                j = len(rt.py) - 1 - rt.py[::-1].index(c["py"])
                mj, mi = rt.svc.methods[j], rt.svc.methods[c["method"]]
                # (also when only the request CLASS differs: the bytes would be re-parsed as another message type,
                #  and the model keeps bytes unchanged under such a re-tagging, which is exact only for compatible types)
                if mj.cs != mi.cs or mj.in_t != mi.in_t:
                    results.append("shape")
                    continue
            try:
                obs = await (raw_call(rt, c) if c["kind"] == "raw" else real_call(rt, c))
            except Exception as e:  # noqa
                obs = {"rec": [], "log": [], "msgs": [], "end": ("exc", f"harness: {type(e).__name__}: {e}"), "kw_objs": ({}, {}), "server_seen": []}
            if obs["end"][0] == "hang":
                if conv:
                    conv_hangs[0] += 1   # (own budget: a deadlocked conversation must not stop the other calls)
                else:
                    hangs[0] += 1
            results.append(obs)
        return results
    t1 = time.time()
    results = asyncio.run(run_all())
    ctx.notes.append(f"{len(work)} real calls over ChannelFor: {time.time() - t1:.1f}s")
    if conv_hangs[0]:
        ctx.notes.append(f"{conv_hangs[0]} conversational stream-stream calls deadlocked (further ones skipped after 2)")
    if hangs[0] >= MAX_HANGS:
        ctx.notes.append(f"{MAX_HANGS} calls hung; the remaining real calls were skipped")

    for (rt, c), obs in zip(work, results):
        if obs == "shape":
            # K8: the attribute named after this RPC is the stub method of ANOTHER RPC that wants an iterator
            # where this one takes a message (or the reverse); nothing sensible can be called
            j = len(rt.py) - 1 - rt.py[::-1].index(c["py"])
            ctx.fail("oracle", f"stub attribute {c['py']} belongs to RPC {rt.svc.methods[j].name} (client_streaming="
                               f"{rt.svc.methods[j].cs}, request type {rt.svc.methods[j].in_t}); RPC "
                               f"{rt.svc.methods[c['method']].name} cannot be called through the stub",
                     cls="pyname-collision", input=replay_input(rt, c), feature=c["feature"])
            continue
        if obs is None:
            continue
        ctx.cov["evaluations"] += 1
        ctx.count("call:" + c["feature"].split(" stub=")[0].split(" after ")[0])
        vals_snaps = [rt.snap(rt.value(r)) for r in (c["reqs"] if c["iter"] else c["reqs"][:1])]
        nontrivial = any(s[1] for s in vals_snaps) or any(sc["status"] or sc["resp"] for sc in c["scripts"].values()) or c.get("kwargs")
        if nontrivial:
            ctx.seen_nontrivial(json.dumps([rt.literal(), {k: v for k, v in c.items() if k != "feature"}], sort_keys=True, default=repr))
        if c["kind"] == "raw":
            m = rt.svc.methods[c["method"]]
            wire = "[" + "; ".join(lib.coq_bytes(s[1]) for s in vals_snaps) + "]"
            add(f"cv_raw (raw_call {rt.coq_name} {impl_lit(c['scripts'], rt)} {coq_str(c['route'])} true {coq_str(m.out_t)} {wire})",
                cl([cv_trace([(e[0], e[1]) for e in obs["log"]]), cv_cres(obs["msgs"], obs["end"])]), ("raw call", rt, c, obs))
            continue
        # oracle first: it is what yields the failing input
        if c["wellformed"]:
            try:
                why = oracle_call(rt, c, obs, vals_snaps)
            except Exception as e:  # noqa
                why = [f"oracle evaluation raised {type(e).__name__}: {e}"]
            if why:
                fc = finding_class(rt, c)
                what = "; ".join(why)[:900]
                if fc == "ss-coroutine-handler":
                    # one line per defect, not one per method (lib de-duplicates on the text)
                    ctx.fail("oracle", "a server-streaming handler written without `yield` (a coroutine) is never run by "
                                       "ServiceBase._call_rpc_handler_server_stream: its side effects and the GRPCError it raises are lost "
                                       "(fixes/c11-server-stream-coroutine.patch)",
                             cls=fc, input=replay_input(rt, c, obs), feature=c["feature"], detail=what)
                else:
                    ctx.fail("oracle", what, cls=fc, input=replay_input(rt, c, obs), feature=c["feature"])
        add(model_call_expr(rt, c, vals_snaps), expected_call_cv(rt, c, obs), ("call", rt, c, obs))

    # ------------------------------------------------------------------ T1 again, on a reflection made now
    # (coq/gen/C11Tables.v is a shared file that concurrent checks of other properties regenerate from
    #  THEIR tree; this evaluation does not depend on it)
    try:
        from .. import gen_c11
        text = gen_c11.generate()
        body = text.split("\n", 3)[3]
        pre = "Model.Grpc.\nModule C11Live.\n" + body + "\nEnd C11Live.\nDefinition c11_live_follows := tt"
        out = lib.coq_eval(ctx, pre, "tables_ok_of C11Live.stub_sites C11Live.helper_sites C11Live.mapping_sites "
                                     "C11Live.default_status C11Live.status_unimplemented C11Live.status_unknown "
                                     "C11Live.probe_service C11Live.probe_stub_routes C11Live.probe_mapping_routes "
                                     "C11Live.bare_service C11Live.bare_mapping_route")
        ctx.cov["evaluations"] += 1
        if not out.replace("\n", " ").strip().startswith("= true"):
            ctx.fail("corr", "reflection of the probe service rendered by the live plugin disagrees with the model "
                             "(helper chosen by a stub body / Cardinality of a helper or of a __mapping__ entry / default status / route strings)",
                     no_input=True, theorem_or_correspondence="C11_tables (T1: tables_ok_of on the live reflection)",
                     live_tables=body[:3000], coq_answer=out[-600:])
    except BaseException as e:  # noqa
        ctx.fail("corr", f"reflection of the probe service failed: {type(e).__name__}: {e}", no_input=True,
                 theorem_or_correspondence="C11_tables (T1 reflection)", traceback=traceback.format_exc()[-1500:])

    # ------------------------------------------------------------------ a bidirectional echo larger than the HTTP/2 windows
    try:
        large_echo_stage(ctx)
        reserved_names_stage(ctx)
    except Exception as e:  # noqa
        ctx.fail("crash", f"the large-echo stage raised {type(e).__name__}: {e}", no_input=True,
                 theorem_or_correspondence="C11 oracle (large bidirectional echo)", traceback=traceback.format_exc()[-1500:])

    # ------------------------------------------------------------------ conversational protocols (Model/GrpcConv.v)
    try:
        conv_stage(ctx, rts)
    except Exception as e:  # noqa
        ctx.fail("crash", f"the conversational stage raised {type(e).__name__}: {e}", no_input=True,
                 theorem_or_correspondence="C11_conversation_complete (tie)", traceback=traceback.format_exc()[-1500:])

    # ------------------------------------------------------------------ correspondence inside Coq
    t2 = time.time()
    try:
        bad = lib.coq_compare(ctx, "c11", imports_with(rts), pairs, chunk=120)
        ctx.notes.append(f"{len(pairs)} model evaluations in Coq: {time.time() - t2:.1f}s")
    except RuntimeError as e:
        ctx.fail("corr", "the model could not be evaluated on the generated cases (Model/Grpc.v does not build or a case is ill-formed)",
                 no_input=True, theorem_or_correspondence="T2 correspondence Model/Grpc.v <-> generated stub/base + betterproto.grpc", detail=str(e)[-1500:])
        bad = []
    ctx.cov["disagreements_checked"] += len(pairs)
    for idx in bad[:6]:
        d = descr[idx]
        rt = d[1]
        model_val = lib.coq_eval(ctx, imports_with([rt]), pairs[idx][0])
        case = d[2] if d[2] is not None else {"kind": d[0]}
        ctx.fail("corr", f"model and implementation disagree on {d[0]}" + (f" ({case.get('feature')})" if case.get("feature") else ""),
                 input=replay_input(rt, case, d[3] if len(d) > 3 else None), expected_model=model_val[-1500:], observed_impl=pairs[idx][1][:1500],
                 theorem_or_correspondence="T2 correspondence Model/Grpc.v <-> generated stub/base + betterproto.grpc")
    if len(bad) > 6:
        ctx.notes.append(f"{len(bad)} correspondence disagreements in total, 6 reported")
    for idx in (0, 1, len(pairs) // 3, len(pairs) // 2, len(pairs) - 1):
        if 0 <= idx < len(pairs):
            ctx.sample({"case": descr[idx][0], "service": descr[idx][1].describe()["service"],
                        "feature": (descr[idx][2] or {}).get("feature"), "model_expr": pairs[idx][0][:400], "impl": pairs[idx][1][:400]})


def finish(ctx):
    tie = ctx.cov.get("source_translation_tie") or {}
    held = [k for k, p in (tie.get("parts") or {}).items() if p.get("held")]
    assumptions = list(ASSUMPTIONS) + [getattr(ctx, "src_tie_line", "source-translation tie: stage not run")]
    trusted = list(TRUSTED)
    if held:
        trusted.append("source-translation tie (held for: " + ", ".join(held) + "): the translator harness/gen_c11_src.py on top of harness/gen_c16_src.py "
                       "(Python `ast`, fail-closed, accepted subsets documented in their headers) and the semantics of the Python operations it targets, "
                       "coq/Model/C16SrcLib.v + coq/Model/C11SrcLib.v (an opaque object is a value of an arbitrary type, bool() on it an arbitrary function, "
                       "Optional = option, `is None` = a test of the constructor, a dict literal = its items in source order with last-binding lookup), "
                       "and coq/Model/C11SrcGlue.v (what **dict binds to the keyword-only arguments of grpclib's Channel.request); for ServiceStub.__init__ / "
                       "__resolve_request_kwargs the hand-written resolve1 / resolve_kwargs are no longer trusted beyond that: they are PROVED equal to the translation")
    return lib.finish(
        ctx, "proof",
        "Coq theorems (all services, all stream lengths, all 64 kwargs combinations) over a Gallina mirror of the generated stub / "
        "server base and betterproto.grpc + regenerated reflection tables (T1) + executable correspondence on services rendered by "
        "the real plugin and called over grpclib.testing.ChannelFor; small-step model of one call (sender task / caller loop / handler, "
        "any schedule) with confluence and completeness theorems for conversational request streams, tied by conversational protocols run "
        "over the real stub + Base; PARTIAL: HTTP/2 framing and flow control, grpclib deadlines, cancellation / stream resets are exercised "
        "by the real calls but not modelled"
        + ("; the kwargs resolver and the stub constructor additionally tied by mechanical source translation proved equal to the model" if held else ""),
        assumptions, trusted, RULE,
        extra_cov={"exhaustive": False,
                   "explanation": "theorems are unbounded over services / streams / kwargs; the correspondence samples generated services "
                                  "and is exhaustive only over the 64 None/set kwargs combinations and stream lengths 0..3 x 0..3"})


def replay(ctx, obj):
    """re-run the stored case against the current tree"""
    logging.disable(logging.CRITICAL)
    inp = obj.get("input") or {}
    print(json.dumps({k: obj.get(k) for k in ("kind", "what", "cls", "feature")}, indent=1))
    if "proto_files" in inp and inp.get("case", {}).get("kind") == "conv":
        # a conversational protocol (coq/Model/GrpcConv.v vocabulary): run it again over the real stub + Base
        root = f"c11replay{os.getpid()}"
        rc, out, _ = pu.generate(ctx.work, inp["proto_files"], root)
        if rc != 0:
            print("plugin failed:", out[-1000:])
            return 1
        sd = inp["service"]
        svc = pg.Svc(0, sd["package"], sd["service"], "", [pg.Meth(m["name"], m["client_streaming"], m["server_streaming"], m["in"], m["out"]) for m in sd["methods"]])
        bundle = pg.Bundle(root, inp["proto_files"], [svc], {k: tuple(v) for k, v in inp["types"].items()})
        rt = Rt(bundle, svc, ctx.work)
        case = inp["case"]
        proto, i = case["protocol"], case["method"]
        obs = asyncio.run(conv_call(rt, i, proto))
        why = conv_oracle(rt.svc.methods[i], proto, obs)
        print("protocol:", json.dumps({"family": proto["family"], "status": proto["status"], "source": [x[0] for x in proto["src"]],
                                       "handler": [x[0] for x in proto["hdl"]]}))
        print("source produced:", obs["yielded"], "\nhandler read:", obs["read"], "\nhandler emitted:", obs["emitted"],
              "\ncaller received:", obs["received"], obs["end"])
        print("property:", "HOLDS on this input" if not why else "VIOLATED: " + "; ".join(why))
        return 1 if why else 0
    if "proto_files" not in inp or inp.get("case", {}).get("kind") != "call":
        print(json.dumps(inp, indent=1, default=repr)[:4000])
        return 0
    root = f"c11replay{os.getpid()}"
    rc, out, _ = pu.generate(ctx.work, inp["proto_files"], root)
    if rc != 0:
        print("plugin failed:", out[-1000:])
        return 1
    sd = inp["service"]
    svc = pg.Svc(0, sd["package"], sd["service"], "", [pg.Meth(m["name"], m["client_streaming"], m["server_streaming"], m["in"], m["out"]) for m in sd["methods"]])
    bundle = pg.Bundle(root, inp["proto_files"], [svc], {k: tuple(v) for k, v in inp["types"].items()})
    rt = Rt(bundle, svc, ctx.work)
    case = inp["case"]
    case["reqs"] = [tuple(r) for r in case["reqs"]]
    for sc in case["scripts"].values():
        sc["resp"] = [tuple(r) for r in sc["resp"]]
    obs = asyncio.run(real_call(rt, case))
    snaps = [rt.snap(rt.value(r)) for r in (case["reqs"] if case["iter"] else case["reqs"][:1])]
    why = oracle_call(rt, case, obs, snaps)
    print("handlers ran:", [(e[0], e[1]) for e in obs["log"]])
    print("caller received:", obs["msgs"], obs["end"])
    print("property:", "HOLDS on this input" if not why else "VIOLATED: " + "; ".join(why))
    return 1 if why else 0
