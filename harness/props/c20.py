"""C20 — enums are open, canonical and immutable.

T2: enum classes are created at run time from random class bodies (1-8 members, 0, negatives, gaps,
    aliases, re-assigned names, dunder names); histories of public operations are run on the real
    class and on coq/Model/Enum.v (vm_compute inside Coq) and compared outcome by outcome, together
    with the class tables before and after.  The enum scalar path of both codecs
    (_preprocess_single/_postprocess_single, the packed loop, the to_dict/from_dict element) is
    compared the same way.
Oracle: the property itself on the implementation — canonical lookup, openness, immutability,
    copy/pickle, and the binary / dict / JSON round trip of every int32 boundary number in the five
    field positions (singular, repeated, map value, oneof, optional) of real message classes.
T3: google.protobuf on the same message shape (bytes both ways; int32 truncation of enum varints).
T2 (message level): the five-position class is also built with harness/msggen.py as a schema of the shared codec model;
    the message of the message-level theorems (m = Cls(); m.f = v, and Cls(f=v)), its bytes, what the parsed / rebuilt
    message reads as, the dict, the JSON form under the field's key (against the first-declared-name rule computed here)
    and every hypothesis of C20_roundtrip_message_binary / _json are evaluated inside Coq and compared.
"""
import copy
import dataclasses
import json
import os
import pickle
import sys
import types
from typing import Dict, List, Optional

from .. import lib
from ..lib import cz, cb, cl, ce, CN, cbool, coq_bytes, coq_z

IMPORTS = "Model.Varint Model.Scalar Model.Enum"

TRUSTED = [
    "Coq 8.16.1 kernel and vm_compute (no native_compute); full .vo build via coq_makefile",
    "axioms: none (every theorem of Properties/C20.v is 'Closed under the global context')",
    "hand-written model coq/Model/Enum.v tied to /repo by executable correspondence (this harness): histories of the "
    "public enum API and the enum scalar path of both codecs are evaluated by vm_compute on the inputs the implementation ran",
    "Python side: generators of class bodies / histories, canonicalisation of members to (name, number, is-table-object), "
    "exceptions to error kinds, dynamic construction of betterproto Enum / Message classes and of the google.protobuf twin",
    "object identity is modelled as 'equal to the pair stored in _value_map_ under its number'; real `is` identity is "
    "checked by the harness on the implementation only",
    "the message-level theorems (C20_roundtrip_message_binary / _json and their _built forms) are instances of C01_roundtrip and "
    "C04's from_to_dict_norm over the shared codec model (Model/Object, Encode, Decode, Json), which is tied to the code by the "
    "checks of C01 / C04 on generated schemas (enum fields in all five positions included) and, for the five-position class and "
    "the messages the theorems build, by the message-level correspondence of this check",
    "oracles: CPython 3.12 copy/pickle/json, google.protobuf 7.x (upb)",
]
ASSUMPTIONS = [
    "Python int is Z, str is its UTF-8 bytes; a class body is the list of its NAME = number assignments in source order",
    "member values are ints (never descriptors); dict iteration is insertion order",
    "mutation means the attribute protocol (setattr/delattr on class or member); private tables reached through "
    "_value_map_/_member_map_, type(E).X = ... or object.__setattr__ are outside the property, as with enum.Enum",
]
RULE = ("class bodies: systematic shapes (single 0, no 0, all aliases, negatives, int32 extremes, re-assigned name, dunder name) "
        "then random 1-8 assignments over {0, small, negative, gaps, int32 boundaries, random int32} with alias probability 0.3; "
        "histories: 24-40 operations over all 20 operation kinds, arguments 70% defined / 30% undefined; scalar path: wrap64 of every "
        "int32 boundary +-2, 7-bit boundaries, random 32/64-bit varints, packed buffers valid / truncated / random; positions: "
        "{singular, repeated, map value, oneof, optional} x {binary, dict, json} x boundary numbers; "
        "message level: the five-position class as a schema of the shared codec model over the reference body and 2 (thorough: 12) random "
        "bodies with distinct names x the five positions x {declared numbers, 0, 1, -1, 5, -7, int32 bounds, 2 random int32}: object state of "
        "m.f = v and Cls(f=v), bytes, parse, to_dict, dict[key] against the first-declared-name rule, from_dict, from_json, from_dict of the "
        "number and of every declared name, and the hypotheses of the message-level theorems; "
        "non-trivial = class with >= 2 members or a non-zero number; distinct = distinct (body, history) / (position, codec, number, body)")

INT32_MIN, INT32_MAX = -(1 << 31), (1 << 31) - 1
NAME_POOL = ["ZERO", "RED", "GREEN", "BLUE", "ALPHA", "B", "c_lower", "X1", "_priv", "UNSPECIFIED", "Ünï", "ROUGE",
             "NEG", "MIN", "MAX", "K9", "a", "Z_", "_"]
ABSENT_NAMES = ["NOPE", "red", "Zero", "", "R", "ÜNÏ", "None"]
DUNDER_NAMES = ["__x", "__hidden__"]
MODNAME = "c20_synth"


def synth_module():
    mod = sys.modules.get(MODNAME)
    if mod is None:
        mod = types.ModuleType(MODNAME)
        mod.__dict__.update(List=List, Dict=Dict, Optional=Optional)
        sys.modules[MODNAME] = mod
    return mod


_counter = [0]


def make_enum(assigns, via_exec=False):
    """the class a body `NAME = number ...` produces (namespace built by sequential assignment)"""
    import betterproto as bp

    mod = synth_module()
    _counter[0] += 1
    cname = f"E{_counter[0]}"
    if via_exec:
        src = f"class {cname}(Enum):\n" + "".join(f"    {n} = {v}\n" for n, v in assigns)
        env = {"Enum": bp.Enum, "__name__": MODNAME}
        exec(src, env)
        E = env[cname]
    else:
        ns = {"__module__": MODNAME, "__qualname__": cname}
        for n, v in assigns:
            ns[n] = v
        E = type(bp.Enum)(cname, (bp.Enum,), ns)
    mod.__dict__[cname] = E
    return cname, E


def make_messages(cname, E):
    """message classes built with the public field API: the five positions, and single-field ones"""
    import betterproto as bp

    mod = synth_module()
    out = {}
    specs = {
        "M": [("s", cname, bp.enum_field(1)),
              ("r", f"List[{cname}]", bp.enum_field(2)),
              ("m", f"Dict[str, {cname}]", bp.map_field(3, bp.TYPE_STRING, bp.TYPE_ENUM)),
              ("o", cname, bp.enum_field(4, group="g")),
              ("o2", "int", bp.int32_field(5, group="g")),
              ("p", f"Optional[{cname}]", bp.enum_field(6, optional=True))],
        "S": [("s", cname, bp.enum_field(1))],
        "R": [("r", f"List[{cname}]", bp.enum_field(1))],
    }
    for k, fields in specs.items():
        nm = f"{k}_{cname}"
        cls = dataclasses.make_dataclass(nm, fields, bases=(bp.Message,), eq=False, repr=False)
        cls.__module__ = MODNAME
        mod.__dict__[nm] = cls
        out[k] = cls
    return out


# ----------------------------------------------------------------------------- Gallina printers
def q_name(n):
    return coq_bytes(n.encode("utf-8"))


def q_defn(assigns):
    return "[" + "; ".join(f"({q_name(n)}, {coq_z(v)})" for n, v in assigns) + "]"


def q_member(nm, v):
    return f"({'None' if nm is None else '(Some ' + q_name(nm) + ')'}, {coq_z(v)})"


def q_op(op):
    k = op[0]
    if k in ("OCall", "OTry", "OCopy", "ODeepcopy", "OPickle", "OStr", "ORepr"):
        return f"{k} {coq_z(op[1])}"
    if k in ("OGetitem", "OGetattr", "OFromString", "ODelattrCls"):
        return f"{k} {q_name(op[1])}"
    if k in ("ODefault", "OIter", "OReversed", "OLen"):
        return k
    if k == "OContains":
        a = op[1]
        if a[0] == "AInt":
            return f"OContains (AInt {coq_z(a[1])})"
        return f"OContains ({a[0]} {q_member(a[1], a[2])})"
    if k == "OSetattrCls":
        return f"OSetattrCls {q_name(op[1])} {coq_z(op[2])}"
    if k == "OSetattrMem":
        return f"OSetattrMem {coq_z(op[1])} {q_name(op[2])} {coq_z(op[3])}"
    if k == "ODelattrMem":
        return f"ODelattrMem {coq_z(op[1])} {q_name(op[2])}"
    if k == "OEqInt":
        return f"OEqInt {coq_z(op[1])} {coq_z(op[2])}"
    raise ValueError(k)


# ----------------------------------------------------------------------------- canonical forms of implementation values
def c_member(m):
    nm = object.__getattribute__(m, "name")
    return cl([CN if nm is None else cb(nm.encode("utf-8")), cz(object.__getattribute__(m, "value"))])


def c_member_id(E, m):
    import betterproto as bp

    if not isinstance(m, bp.Enum):
        return cl([cb(repr(m).encode("utf-8"))])
    nm = object.__getattribute__(m, "name")
    val = object.__getattribute__(m, "value")
    same = type(m) is E and m is E._value_map_.get(val)
    return cl([CN if nm is None else cb(nm.encode("utf-8")), cz(val), cbool(same)])


def c_state(E):
    return cl([cl([cl([cz(k), c_member(m)]) for k, m in E._value_map_.items()]),
               cl([cl([cb(n.encode("utf-8")), c_member(m)]) for n, m in E._member_map_.items()])])


def snapshot(E):
    """everything observable about the class tables and its members (for the immutability oracle)"""
    vm = [(k, id(m), m.name, m.value, int(m)) for k, m in E._value_map_.items()]
    mm = [(n, id(m), m.name, m.value, int(m)) for n, m in E._member_map_.items()]
    attrs = [(n, id(getattr(E, n, None))) for n in E._member_map_]
    return (vm, mm, attrs, len(E), [id(x) for x in E])


def guarded(f, conv):
    try:
        return conv(f())
    except Exception as e:  # noqa
        return ce(lib.exc_kind(e))


def impl_op(E, F, op):
    """run one operation of a history on the real class; canonical outcome as a cv literal"""
    k = op[0]
    mem = lambda v: E.try_value(v)  # noqa
    if k == "OCall":
        return guarded(lambda: E(op[1]), lambda m: c_member_id(E, m))
    if k == "OGetitem":
        return guarded(lambda: E[op[1]], lambda m: c_member_id(E, m))
    if k == "OGetattr":
        return guarded(lambda: getattr(E, op[1]), lambda m: c_member_id(E, m))
    if k == "OFromString":
        return guarded(lambda: E.from_string(op[1]), lambda m: c_member_id(E, m))
    if k == "OTry":
        return guarded(lambda: E.try_value(op[1]), lambda m: c_member_id(E, m))
    if k == "ODefault":
        return guarded(lambda: E.try_value(), lambda m: c_member_id(E, m))
    if k == "OIter":
        return guarded(lambda: list(E), lambda l: cl([c_member_id(E, m) for m in l]))
    if k == "OReversed":
        return guarded(lambda: list(reversed(E)), lambda l: cl([c_member_id(E, m) for m in l]))
    if k == "OLen":
        return guarded(lambda: len(E), cz)
    if k == "OContains":
        a = op[1]
        if a[0] == "AInt":
            x = a[1]
        else:
            cls = E if a[0] == "AMem" else F
            x = cls.__new__(cls, name=a[1], value=a[2])
        return guarded(lambda: x in E, cbool)
    if k == "OSetattrCls":
        return guarded(lambda: setattr(E, op[1], op[2]), lambda _: CN)
    if k == "ODelattrCls":
        return guarded(lambda: delattr(E, op[1]), lambda _: CN)
    if k == "OSetattrMem":
        m = mem(op[1])
        return guarded(lambda: setattr(m, op[2], op[3]), lambda _: c_member(m))
    if k == "ODelattrMem":
        m = mem(op[1])
        return guarded(lambda: delattr(m, op[2]), lambda _: c_member(m))
    if k in ("OCopy", "ODeepcopy"):
        m = mem(op[1])
        f = copy.copy if k == "OCopy" else copy.deepcopy
        return guarded(lambda: f(m), lambda r: cl([c_member_id(E, r), cbool(r is m)]))
    if k == "OPickle":
        m = mem(op[1])
        return guarded(lambda: pickle.loads(pickle.dumps(m)), c_member)
    if k == "OStr":
        return guarded(lambda: str(mem(op[1])), lambda s: cb(s.encode("utf-8")))
    if k == "ORepr":
        return guarded(lambda: repr(mem(op[1])), lambda s: cb(s.encode("utf-8")))
    if k == "OEqInt":
        return guarded(lambda: mem(op[1]) == op[2], cbool)
    raise ValueError(k)


# ----------------------------------------------------------------------------- generators
def boundary_numbers():
    out = set()
    for b in (0, 1 << 7, 1 << 14, 1 << 21, 1 << 28, 1 << 31):
        for d in (-2, -1, 0, 1, 2):
            for s in (1, -1):
                v = s * b + d
                if INT32_MIN <= v <= INT32_MAX:
                    out.add(v)
    return sorted(out)


def systematic_bodies():
    return [
        [("ZERO", 0)],
        [("ONE", 1)],
        [("NEG", -1)],
        [("ZERO", 0), ("RED", 1), ("ROUGE", 1), ("NEG", -1), ("MAX", INT32_MAX), ("MIN", INT32_MIN)],
        [("A", 5), ("B", 5), ("C", 5)],
        [("A", 0), ("B", 0)],
        [("NEG", -1), ("NEG2", -2), ("ALSO_NEG", -1)],
        [("A", 1), ("B", 2), ("A", 2)],                 # re-assigned name: namespace keeps position, last value
        [("A", 1), ("B", 2), ("A", 3), ("C", 1)],
        [("__x", 3), ("A", 0), ("__hidden__", 1)],      # dunder names are not members
        [("A", 3), ("B", 1), ("C", 2), ("D", 1), ("E", 3), ("F", 0), ("G", -7), ("H", 100)],
        [("MIN", INT32_MIN), ("MIN_ALIAS", INT32_MIN), ("MAX", INT32_MAX)],
        [("Ünï", 2), ("_", 0), ("_priv", -3)],
    ]


def random_body(rng):
    n = rng.randint(1, 8)
    names = rng.sample(NAME_POOL, n)
    nums = []
    body = []
    for nm in names:
        if nums and rng.random() < 0.3:
            v = rng.choice(nums)
        else:
            r = rng.random()
            if r < 0.25:
                v = 0
            elif r < 0.6:
                v = rng.randint(-4, 9)
            elif r < 0.8:
                v = rng.choice([INT32_MIN, INT32_MAX, INT32_MIN + 1, INT32_MAX - 1, 127, 128, -128, -129, 1 << 28])
            else:
                v = rng.randint(INT32_MIN, INT32_MAX)
        nums.append(v)
        body.append((nm, v))
    if rng.random() < 0.15:
        nm, _ = rng.choice(body)
        body.insert(rng.randint(0, len(body)), (nm, rng.choice(nums + [11, -11])))
    if rng.random() < 0.1:
        body.insert(rng.randint(0, len(body)), (rng.choice(DUNDER_NAMES), rng.randint(-2, 2)))
    return body


def random_history(rng, body, nops):
    names = [n for n, _ in body if not n.startswith("__")]
    nums = [v for _, v in body]

    def num():
        r = rng.random()
        if r < 0.7:
            return rng.choice(nums)
        if r < 0.85:
            return rng.choice(nums) + rng.choice([-1, 1])
        return rng.choice([0, -1, INT32_MIN, INT32_MAX, rng.randint(INT32_MIN, INT32_MAX), 1 << 40, -(1 << 40)])

    def nm(allow_dunder=True):
        r = rng.random()
        if r < 0.7 and names:
            return rng.choice(names)
        if r < 0.8 and allow_dunder:
            return rng.choice(DUNDER_NAMES + [n for n, _ in body])
        return rng.choice(ABSENT_NAMES + NAME_POOL)

    kinds = ["OCall", "OGetitem", "OGetattr", "OFromString", "OTry", "ODefault", "OIter", "OReversed", "OLen", "OContains",
             "OSetattrCls", "ODelattrCls", "OSetattrMem", "ODelattrMem", "OCopy", "ODeepcopy", "OPickle", "OStr", "ORepr", "OEqInt"]
    ops = []
    order = kinds[:] + [rng.choice(kinds) for _ in range(max(0, nops - len(kinds)))]
    rng.shuffle(order)
    for k in order:
        if k in ("OCall", "OTry", "OCopy", "ODeepcopy", "OPickle", "OStr", "ORepr"):
            ops.append((k, num()))
        elif k in ("OGetitem", "OFromString"):
            ops.append((k, nm()))
        elif k == "OGetattr":
            # attribute access is modelled for member names and absent identifiers only
            n = nm(allow_dunder=False)
            if n == "" or n.startswith("__"):
                n = "NOPE"
            ops.append((k, n))
        elif k == "ODelattrCls":
            ops.append((k, nm()))
        elif k in ("ODefault", "OIter", "OReversed", "OLen"):
            ops.append((k,))
        elif k == "OContains":
            r = rng.random()
            if r < 0.2:
                ops.append((k, ("AInt", num())))
            else:
                kind = "AMem" if r < 0.8 else "AForeign"
                r2 = rng.random()
                if r2 < 0.4 and names:
                    n = rng.choice(names)
                    v = dict(body)[n] if rng.random() < 0.8 else num()
                    ops.append((k, (kind, n, v)))
                elif r2 < 0.7:
                    ops.append((k, (kind, None, num())))
                else:
                    ops.append((k, (kind, rng.choice(ABSENT_NAMES + NAME_POOL), num())))
        elif k == "OSetattrCls":
            ops.append((k, nm() or "x", rng.randint(-3, 3)))
        elif k == "OSetattrMem":
            ops.append((k, num(), rng.choice(["name", "value", "foo", "_x", "real"]), rng.randint(-3, 3)))
        elif k == "ODelattrMem":
            ops.append((k, num(), rng.choice(["name", "value", "foo"])))
        elif k == "OEqInt":
            v = num()
            ops.append((k, v, v if rng.random() < 0.6 else num()))
    return ops


# ----------------------------------------------------------------------------- the property on the implementation (API part)
def py_spec(body):
    ns = {}
    for n, v in body:
        ns[n] = v
    members = [(n, v) for n, v in ns.items() if not n.startswith("__")]
    first = {}
    for n, v in members:
        first.setdefault(v, n)
    return members, first


def oracle_api(ctx, body, E, rng):
    """C20 clauses 1 and 3 stated directly in Python against the real class. Returns a reason or None."""
    members, first = py_spec(body)
    before = snapshot(E)
    # canonical lookup
    for n, v in members:
        m = E(v)
        if type(m) is not E:
            return f"{E.__name__}({v}) is not an instance of the class"
        if m.name != first[v] or m.value != v or int(m) != v:
            return f"{E.__name__}({v}) has name {m.name!r} / number {m.value!r}; declared first name is {first[v]!r}"
        for how, got in (("[name]", E[n]), ("attribute", getattr(E, n)), ("from_string", E.from_string(n)),
                         ("try_value", E.try_value(v)), ("call", E(v)), ("copy", copy.copy(m)), ("deepcopy", copy.deepcopy(m)),
                         ("deepcopy in a list", copy.deepcopy([m])[0])):
            if got is not m:
                return f"lookup of {n}={v} by {how} is not the canonical member object"
        for proto in range(0, pickle.HIGHEST_PROTOCOL + 1):
            p = pickle.loads(pickle.dumps(m, protocol=proto))
            if type(p) is not E or p.name != m.name or p.value != v or int(p) != v:
                return f"pickle protocol {proto} of {n}={v} gives name {p.name!r} number {p.value!r}"
    # iteration / len / contains
    it = list(E)
    if len(it) != len(members) or any(a is not E(v) for a, (n, v) in zip(it, members)):
        return "iteration does not yield the canonical member of each declared name in order"
    if list(reversed(E)) != it[::-1] or len(E) != len(members):
        return "reversed / len disagree with iteration"
    if not all(m in E for m in it):
        return "a member yielded by iteration is not `in` the class"
    if set(E._value_map_) != set(first) or list(E.__members__) != [n for n, _ in members]:
        return "class tables do not list exactly the declared numbers / names"
    # open set
    for v in [0, -1, 1, INT32_MIN, INT32_MAX] + [rng.randint(INT32_MIN, INT32_MAX) for _ in range(3)]:
        if v in first:
            continue
        try:
            E(v)
            return f"{E.__name__}({v}) accepted an undefined number"
        except ValueError:
            pass
        u = E.try_value(v)
        if type(u) is not E or u.name is not None or u.value != v or not (u == v) or int(u) != v or hash(u) != hash(v):
            return f"try_value({v}) is not a nameless instance equal to the integer"
        if u in E:
            return f"try_value({v}) for an undefined number is `in` the class"
        if copy.copy(u) is not u or copy.deepcopy(u) is not u:
            return f"copy of the open value {v} is not the same object"
        p = pickle.loads(pickle.dumps(u))
        if type(p) is not E or p.name is not None or p.value != v or p != v:
            return f"pickle of the open value {v} gives {p.name!r}/{p.value!r}"
    d = E.try_value()
    if d.value != 0 or (0 in first and d is not E(0)):
        return "the enum default (try_value()) is not the member for 0"
    # immutability through the attribute protocol
    targets = [n for n, _ in members] + ["NEW_NAME", "_value_map_", "_member_map_", "name", "__doc__"]
    for t in targets:
        for what, f in (("setattr(class)", lambda: setattr(E, t, 1)), ("delattr(class)", lambda: delattr(E, t))):
            try:
                f()
                return f"{what} of {t!r} succeeded"
            except AttributeError:
                pass
            except Exception as e:  # noqa
                return f"{what} of {t!r} raised {type(e).__name__} rather than AttributeError"
    for m in it[:3] + [E.try_value(12345)]:
        for t in ("name", "value", "other"):
            for what, f in (("setattr(member)", lambda: setattr(m, t, 1)), ("delattr(member)", lambda: delattr(m, t))):
                try:
                    f()
                    return f"{what} of {t!r} succeeded"
                except AttributeError:
                    pass
                except Exception as e:  # noqa
                    return f"{what} of {t!r} raised {type(e).__name__} rather than AttributeError"
    if snapshot(E) != before:
        return "class tables / members changed after rejected mutations"
    return None


# ----------------------------------------------------------------------------- the property on the implementation (positions)
POSITIONS = ["s", "r", "m", "o", "p"]
CODECS = ["binary", "dict", "dict_defaults", "json"]


def position_value(pos, val):
    if pos == "r":
        return [val, val]
    if pos == "m":
        return {"k": val, "": val}
    return val


def same_number(got, want):
    if isinstance(want, list):
        return isinstance(got, list) and len(got) == len(want) and all(same_number(a, b) for a, b in zip(got, want))
    if isinstance(want, dict):
        return isinstance(got, dict) and list(got) == list(want) and all(same_number(got[k], want[k]) for k in want)
    return isinstance(got, int) and not isinstance(got, bool) and got == want and int(got) == int(want)


def members_of_value(x):
    if isinstance(x, list):
        return x
    if isinstance(x, dict):
        return list(x.values())
    return [x]


_twins = {}


def dump_twin_first(E, v):
    """another enum class with the SAME __name__ (as `Status` in two packages of one program), in which number v carries a
    different name (or has a name where E has none), is dumped to JSON before E is: whatever E does with v afterwards must
    be E's own business (seeded change C20-4: a name cache keyed by the class name)"""
    import betterproto as bp

    key = (E, v)
    if key in _twins:
        return
    _twins[key] = True
    tmod = "c20_twin_" + E.__name__ + "_" + str(v).replace("-", "m")
    mod = types.ModuleType(tmod)
    mod.__dict__.update(List=List, Dict=Dict, Optional=Optional)
    sys.modules[tmod] = mod
    ns = {"__module__": tmod, "__qualname__": E.__name__, "TWIN_ZERO": 0}
    if v != 0:
        ns["TWIN_NAME"] = v
    T = type(bp.Enum)(E.__name__, (bp.Enum,), ns)
    mod.__dict__[E.__name__] = T
    MT = dataclasses.make_dataclass("TwinHolder", [("s", E.__name__, bp.enum_field(1)), ("r", f"List[{E.__name__}]", bp.enum_field(2)),
                                                   ("m", f"Dict[str, {E.__name__}]", bp.map_field(3, bp.TYPE_STRING, bp.TYPE_ENUM))],
                                    bases=(bp.Message,), eq=False, repr=False)
    MT.__module__ = tmod
    mod.__dict__["TwinHolder"] = MT
    t = MT(s=T(v), r=[T(v), T.try_value(v + 1 if v < 2 ** 31 - 1 else v - 1)], m={"k": T(v)})
    t.to_dict(); t.to_json(); t.to_dict(include_default_values=True)
    MT().from_dict(t.to_dict())


def check_position(E, M, pos, codec, v):
    """round trip of number v in position pos through codec; returns a reason or None"""
    import betterproto as bp

    if codec != "binary":
        try:
            dump_twin_first(E, v)
        except Exception:  # noqa
            pass
    val = E.try_value(v)
    want = position_value(pos, val)
    m = M(**{pos: want})
    if codec == "binary":
        data = bytes(m)
        if len(m) != len(data):
            return f"len(m)={len(m)} but bytes are {len(data)} long"
        m2 = M().parse(data)
    elif codec == "dict":
        m2 = M().from_dict(m.to_dict())
    elif codec == "dict_defaults":
        m2 = M().from_dict(m.to_dict(include_default_values=True))
    else:
        m2 = M().from_json(m.to_json())
    got = getattr(m2, pos)
    if not same_number(got, want):
        return f"number {v} in position {pos!r} came back as {got!r} through {codec}"
    if True:
        for g in members_of_value(got):
            if type(g) is not E:
                return f"position {pos!r} through {codec}: value is {type(g).__name__}, not an instance of the enum"
            if v in E._value_map_ and g is not E(v):
                return f"position {pos!r} through {codec}: defined number {v} is not the canonical member"
            if v not in E._value_map_ and (g.name is not None or g.value != v):
                return f"position {pos!r} through {codec}: open value {v} has name {g.name!r} number {g.value!r}"
    if pos == "o" and bp.which_one_of(m2, "g")[0] != "o":
        return f"oneof member lost through {codec} (number {v})"
    if pos == "p" and m2.p is None:
        return f"optional field lost through {codec} (number {v})"
    return None


def position_class(codec, v, E):
    if codec == "binary" and v < 0:
        return "binary-negative-number"
    if codec != "binary" and v not in E._value_map_:
        return "json-number-without-name"
    if codec == "dict_defaults" and 0 not in E._value_map_:
        return "json-number-without-name"   # the other enum fields are emitted with their default: number 0, which has no name
    return "other"


WHAT = {
    "binary-negative-number": "a negative enum number does not survive bytes()/parse() (DESIGN F3, repaired by /repo bdf150b = fixes/c20-f3-enum-int32-decode.patch)",
    "json-number-without-name": "an enum number without a name does not survive to_dict/to_json -> from_dict/from_json "
                                "(DESIGN F8, repaired by /repo f0e3c24 = fixes/c20-f8-unnamed-enum-json.patch)",
    "other": "an enum field value does not survive a codec round trip",
}


# ----------------------------------------------------------------------------- T3: the reference on the same shape
def build_reference(seed):
    from google.protobuf import descriptor_pb2, descriptor_pool, message_factory

    T = descriptor_pb2.FieldDescriptorProto
    fdp = descriptor_pb2.FileDescriptorProto(name=f"c20_{seed}.proto", package=f"c20r{seed}", syntax="proto3")
    en = fdp.enum_type.add(name="Color")
    en.options.allow_alias = True
    for n, v in [("ZERO", 0), ("RED", 1), ("ROUGE", 1), ("NEG", -1), ("MAX", INT32_MAX), ("MIN", INT32_MIN)]:
        en.value.add(name=n, number=v)
    msg = fdp.message_type.add(name="M")
    tn = f".c20r{seed}.Color"
    msg.field.add(name="s", number=1, type=T.TYPE_ENUM, type_name=tn, label=T.LABEL_OPTIONAL)
    msg.field.add(name="r", number=2, type=T.TYPE_ENUM, type_name=tn, label=T.LABEL_REPEATED)
    ent = msg.nested_type.add(name="MEntry")
    ent.options.map_entry = True
    ent.field.add(name="key", number=1, type=T.TYPE_STRING, label=T.LABEL_OPTIONAL)
    ent.field.add(name="value", number=2, type=T.TYPE_ENUM, type_name=tn, label=T.LABEL_OPTIONAL)
    msg.field.add(name="m", number=3, type=T.TYPE_MESSAGE, type_name=f".c20r{seed}.M.MEntry", label=T.LABEL_REPEATED)
    msg.oneof_decl.add(name="g")
    msg.field.add(name="o", number=4, type=T.TYPE_ENUM, type_name=tn, label=T.LABEL_OPTIONAL, oneof_index=0)
    msg.field.add(name="o2", number=5, type=T.TYPE_INT32, label=T.LABEL_OPTIONAL, oneof_index=0)
    msg.oneof_decl.add(name="_p")
    msg.field.add(name="p", number=6, type=T.TYPE_ENUM, type_name=tn, label=T.LABEL_OPTIONAL, oneof_index=1, proto3_optional=True)
    pool = descriptor_pool.DescriptorPool()
    pool.Add(fdp)
    return message_factory.GetMessageClass(pool.FindMessageTypeByName(f"c20r{seed}.M"))


REF_BODY = [("ZERO", 0), ("RED", 1), ("ROUGE", 1), ("NEG", -1), ("MAX", INT32_MAX), ("MIN", INT32_MIN)]


def ref_get(r, pos):
    if pos == "r":
        return list(r.r)
    if pos == "m":
        return dict(r.m)
    return getattr(r, pos)


def t3(ctx, numbers, rng):
    import betterproto as bp

    Ref = build_reference(ctx.seed)
    cname, E = make_enum(REF_BODY)
    M = make_messages(cname, E)["M"]
    n = 0
    for v in numbers:
        for pos in POSITIONS:
            try:
                want = position_value(pos, v)
                mine = bytes(M(**{pos: position_value(pos, E.try_value(v))}))
                r = Ref()
                if pos == "r":
                    r.r.extend(want)
                elif pos == "m":
                    for k, x in want.items():
                        r.m[k] = x
                else:
                    setattr(r, pos, v)
                theirs = r.SerializeToString(deterministic=True)
                n += 1
                if pos != "m" and mine != theirs:
                    ctx.fail("oracle", f"bytes of enum number {v} in position {pos!r}: betterproto {mine.hex()} reference {theirs.hex()}",
                             cls="other", input={"kind": "position", "body": REF_BODY, "pos": pos, "codec": "binary", "v": v})
                    continue
                back = ref_get(Ref.FromString(mine), pos)
                if back != want:
                    ctx.fail("oracle", f"the reference reads betterproto's bytes of {v} in position {pos!r} as {back!r}",
                             cls="other", input={"kind": "position", "body": REF_BODY, "pos": pos, "codec": "binary", "v": v})
                got = getattr(M().parse(theirs), pos)
                if not same_number(got, want):
                    ctx.fail("oracle", f"reference bytes {theirs.hex()} (enum number {v}, position {pos!r}) parse as {got!r}",
                             cls=position_class("binary", v, E),
                             input={"kind": "position", "body": REF_BODY, "pos": pos, "codec": "binary", "v": v})
            except Exception as e:  # noqa
                ctx.fail("oracle", f"T3 on number {v} position {pos!r} raised {e!r}", cls="other",
                         input={"kind": "position", "body": REF_BODY, "pos": pos, "codec": "binary", "v": v})
    # arbitrary varints in an enum field: the reference truncates to int32
    raws = [0, 1, (1 << 32) - 1, 1 << 32, (1 << 32) + 1, (1 << 31), (1 << 31) - 1, (1 << 64) - 1, (1 << 63), (1 << 64) - (1 << 31),
            (1 << 64) - (1 << 31) - 1] + [rng.getrandbits(rng.choice([31, 32, 33, 40, 63, 64])) for _ in range(200 if not ctx.thorough else 3000)]
    def padded(n, pad):
        out = bytearray()
        while n >= 0x80:
            out.append((n & 0x7F) | 0x80)
            n >>= 7
        if pad:
            out.append(n | 0x80)
            out += b"\x80" * (pad - 1) + b"\x00"
        else:
            out.append(n)
        return bytes(out)

    for i, raw in enumerate(raws):
        # minimal encoding, and every third case a padded (non-minimal) one
        data = b"\x08" + (bp.encode_varint(raw) if i % 3 or raw >= (1 << 56) else padded(raw, 1 + i % 2))
        try:
            a = Ref.FromString(data).s
            b = M().parse(data).s
            n += 1
            if not (isinstance(b, int) and a == b):
                ctx.fail("oracle", f"enum field holding varint {raw}: reference reads {a}, betterproto reads {int(b)}",
                         cls="binary-negative-number" if raw >= (1 << 31) else "other",
                         input={"kind": "raw-varint", "body": REF_BODY, "raw": raw})
        except Exception as e:  # noqa
            ctx.fail("oracle", f"T3 raw varint {raw} raised {e!r}", cls="other", input={"kind": "raw-varint", "body": REF_BODY, "raw": raw})
    ctx.count("t3_reference_comparisons", n)
    ctx.cov["evaluations"] += n


# ----------------------------------------------------------------------------- T2, message level (the five positions)
MSG_IMPORTS = ("Model.Types Model.Object Model.Eq Model.Encode Model.Decode Model.WellFormed Model.C01Def Model.Canon Model.Json "
               "Model.C20Msg Proofs.C04Def Proofs.C20MsgDef")
MSG_PRELUDE = """From BP Require Model.Enum.
Definition posz (p : epos) : Z := match p with PosSingular => 0 | PosRepeated => 1 | PosMapValue => 2 | PosOneof => 3 | PosOptional => 4 end.
Definition fld (sc : schema) (i : nat) : fdesc := nth i (cfields (get_class sc 11)) (mkF [] 0 TBool None None None false (HPlain PyBool) 0).
Definition positions (sc : schema) : cv :=
  CL (map (fun f => copt (fun pe => CL [CZ (posz (fst pe)); CZ (Z.of_nat (snd pe))]) (enum_position f)) (cfields (get_class sc 11))).
Definition schema_hyps (sc : schema) : cv :=
  CL [cbool (c01_schema_ok sc); cbool (wf_schema sc); cbool (keys_ok CAMEL sc); cbool (keys_ok SNAKE sc)].
Definition value_hyps (sc : schema) (m : obj) (i : nat) (pos : epos) (x : pv) (v : Z) : cv :=
  CL [cbool (c01_value_ok sc m); cbool (good sc m); cv_pv_res (read sc m i); cbool (holds_enum pos x v)].
Definition after_parse (sc : schema) (m : obj) (i : nat) : cv :=
  match enc_obj sc m with
  | Ok bs => match parse sc 11 bs with
             | Ok m' => CL [cv_pv_res (read sc m' i); cv_bytes_res (enc_obj sc m')]
             | Err _ => CE EOther
             end
  | Err _ => CE EOther
  end.
Definition after_dict (sc : schema) (m : obj) (i : nat) : cv :=
  match from_dict_inst sc (new sc 11) (to_dict CAMEL false sc m) with
  | Ok m' => CL [cv_pv_res (read sc m' i); cv_bytes_res (enc_obj sc m')]
  | Err _ => CE EOther
  end.
Definition after_json (sc : schema) (m : obj) (i : nat) : cv :=
  match json_rt_inst SNAKE false sc m (new sc 11) with
  | Ok m' => cv_pv_res (read sc m' i)
  | Err _ => CE EOther
  end.
Definition member_cv (sc : schema) (v : Z) : cv := copt Enum.cmem (field_member sc 0 (PInt v)).
"""
MSG_FIELDS = [("s", 0, "PosSingular"), ("r", 1, "PosRepeated"), ("m", 2, "PosMapValue"), ("a", 3, "PosOneof"), ("o", 5, "PosOptional")]


def five_position_schema(body):
    """the five-position class as a schema of the shared codec model (real classes + Gallina literal)"""
    from .. import msggen as G
    E = G.Elem("enum", "enum", 0)
    fields = [G.Field("s", 1, "plain", E), G.Field("r", 2, "repeated", E), G.Field("m", 3, "map", E, key=G.scalar("string")),
              G.Field("a", 4, "plain", E, group=0), G.Field("b", 5, "plain", G.scalar("string"), group=0),
              G.Field("o", 6, "optional", E)]
    return G.Schema([G.Cls("M5", fields, ngroups=1)], [list(body)])


def first_name(body, v):
    for n, x in body:
        if x == v:
            return n
    return None


def message_level(ctx, rng, bodies):
    """pairs (model expression, implementation result) about the messages of the message-level theorems"""
    from .. import msggen as G, jsongen
    pairs, descr, prelude = [], [], [MSG_PRELUDE]

    def add(model, expected, d):
        pairs.append((model, expected))
        descr.append(d)

    for si, body in enumerate(bodies):
        try:
            sch = five_position_schema(body)
        except Exception as e:  # noqa
            ctx.fail("oracle", f"five-position schema over enum {body!r} could not be built: {e!r}", cls="other",
                     input={"kind": "msg-level", "body": body})
            continue
        sc = f"msc{si}"
        prelude.append(f"Definition {sc} : schema := {sch.coq()}.")
        M, E = sch.classes[0].py, sch.pyenums[0]
        add(f"schema_hyps {sc}", cl([cbool(True)] * 4), {"kind": "msg-level schema hypotheses", "body": body})
        add(f"positions {sc}", cl([cl([cz(0), cz(0)]), cl([cz(1), cz(0)]), cl([cz(2), cz(0)]), cl([cz(3), cz(0)]), CN, cl([cz(4), cz(0)])]),
            {"kind": "msg-level enum_position", "body": body})
        defined = sorted({v for _, v in body})
        numbers = sorted(set(defined + [0, 1, -1, 5, -7, INT32_MIN, INT32_MAX] + [rng.randint(INT32_MIN, INT32_MAX) for _ in range(2)]))
        for v in numbers:
            nm = first_name(body, v)
            jel = nm if nm is not None else v
            for fname, idx, pos in MSG_FIELDS:
                d = {"kind": "msg-level", "body": body, "pos": fname, "v": v}
                try:
                    val = E.try_value(v)
                    place = [val] if fname == "r" else ({"k": val} if fname == "m" else val)
                    jform = [jel] if fname == "r" else ({"k": jel} if fname == "m" else jel)
                    omitted = fname == "s" and v == 0
                    m = M()
                    setattr(m, fname, place)
                    lit = G.obj_literal(sch, m)                      # before any observer
                    lit_c = G.obj_literal(sch, M(**{fname: place}))
                    data = bytes(m)
                    m2 = M().parse(data)
                    got2 = getattr(m2, fname)
                    dct = m.to_dict()
                    m3 = M().from_dict(dct)
                    got3 = getattr(m3, fname)
                    got4 = getattr(M().from_json(m.to_json(casing=bp_casing_snake())), fname)
                    g = got2[0] if fname == "r" else (got2["k"] if fname == "m" else got2)
                    mem = cl([CN if g.name is None else cb(g.name.encode("utf-8")), cz(int(g))])
                    mexpr = f"(built {sc} 11 {idx} {pos} (PStr [x6b]) {coq_z(v)})"
                    pl = f"(place {pos} (PStr [x6b]) {coq_z(v)})"
                    add(f"cv_of_obj {mexpr}", f"(cv_of_obj {lit})", dict(d, what="m = Cls(); m.f = v"))
                    add(f"cv_of_obj (construct {sc} 11 [({idx}%nat, {pl})])", f"(cv_of_obj {lit_c})", dict(d, what="Cls(f=v)"))
                    add(f"value_hyps {sc} {mexpr} {idx} {pos} {pl} {coq_z(v)}",
                        cl([cbool(True), cbool(True), f"(cv_of_pv {G.pv_literal(sch, place)})", cbool(True)]), dict(d, what="hypotheses"))
                    add(f"cv_bytes_res (enc_obj {sc} {mexpr})", cb(data), dict(d, what="bytes"))
                    add(f"after_parse {sc} {mexpr} {idx}", cl([f"(cv_of_pv {G.pv_literal(sch, got2)})", cb(bytes(m2))]), dict(d, what="parse"))
                    add(f"member_cv {sc} {coq_z(v)}", mem, dict(d, what="decoded member"))
                    add(f"cv_of_json (to_dict CAMEL false {sc} {mexpr})", jsongen.json_cv(dct), dict(d, what="to_dict"))
                    add(f"copt cv_of_json (jlookup (key_of_field CAMEL (fld {sc} {idx})) (to_dict CAMEL false {sc} {mexpr}))",
                        CN if fname not in dct else jsongen.json_cv(dct[fname]), dict(d, what="dict[key]"))
                    add(f"CL [cbool (enum_omitted {pos} {pl}); cv_of_json (enum_field_json {sc} 0 {pl})]",
                        cl([cbool(omitted), jsongen.json_cv(jform)]), dict(d, what="name-or-number rule"))
                    why = replay_msg_level(body, fname, v)
                    if why:
                        ctx.fail("oracle", WHAT["other"], cls="other", detail=why, input=d)
                    add(f"after_dict {sc} {mexpr} {idx}", cl([f"(cv_of_pv {G.pv_literal(sch, got3)})", cb(bytes(m3))]), dict(d, what="from_dict"))
                    add(f"after_json {sc} {mexpr} {idx}", f"(cv_of_pv {G.pv_literal(sch, got4)})", dict(d, what="from_json"))
                    # from_dict on the number and on EVERY declared name of it (aliases included): the same message
                    for jn in [v] + [n for n, x in body if x == v]:
                        doc = {fname: [jn] if fname == "r" else ({"k": jn} if fname == "m" else jn)}
                        jq = f"(JInt {coq_z(jn)})" if isinstance(jn, int) else f"(JStr {q_name(jn)})"
                        ma = M.from_dict(doc)
                        lit_a = G.obj_literal(sch, ma)
                        add(f"cv_obj_res (from_dict_cls {sc} 11 (jdoc (key_of_field CAMEL (fld {sc} {idx})) {pos} (JStr [x6b]) {jq}))",
                            f"(cv_of_obj {lit_a})", dict(d, what=f"from_dict of the document carrying {jn!r}"))
                        if lit_a != lit:
                            ctx.fail("oracle", WHAT["other"], cls="other", input=d,
                                     detail=f"from_dict({doc!r}) is not the message holding {v} in position {fname!r}: {lit_a} vs {lit}")
                    ctx.count(f"msg_level:{fname}")
                    ctx.seen_nontrivial(("msg", fname, v, tuple(body)))
                except Exception as e:  # noqa
                    ctx.fail("oracle", f"message-level case raised {e!r}", cls="other", input=d)
    return pairs, descr, "\n".join(prelude)


def replay_msg_level(body, fname, v):
    """the implementation side of one message-level case: name-or-number form under the key, and the three round trips"""
    sch = five_position_schema(body)
    M, E = sch.classes[0].py, sch.pyenums[0]
    val = E.try_value(v)
    nm = first_name(body, v)
    jel = nm if nm is not None else v
    place = [val] if fname == "r" else ({"k": val} if fname == "m" else val)
    jform = [jel] if fname == "r" else ({"k": jel} if fname == "m" else jel)
    omitted = fname == "s" and v == 0
    m = M()
    setattr(m, fname, place)
    dct = m.to_dict()
    if (fname in dct) == omitted:
        return f"to_dict {'omits' if omitted else 'keeps'} field {fname!r} holding {v}: {dct!r}"
    if fname in dct and dct[fname] != jform:
        return f"to_dict carries {dct[fname]!r} for {v} in position {fname!r}; the name-or-number rule gives {jform!r}"
    for how, m2 in (("parse(bytes)", M().parse(bytes(m))), ("from_dict(to_dict)", M().from_dict(dct)), ("from_json(to_json)", M().from_json(m.to_json()))):
        got = getattr(m2, fname)
        if not same_number(got, place):
            return f"{how}: position {fname!r} holding {v} came back as {got!r}"
        for g in members_of_value(got):
            if type(g) is not E or (v in E._value_map_ and g is not E(v)) or (v not in E._value_map_ and g.name is not None):
                return f"{how}: position {fname!r}: {g!r} is not the canonical member / open value of {v}"
        if bytes(m2) != bytes(m):
            return f"{how}: the rebuilt message encodes differently"
    return None


def pairs_expr(e):
    return e[:600]


def bp_casing_snake():
    import betterproto as bp
    return bp.Casing.SNAKE



# ----------------------------------------------------------------------------- main
def corpus_inputs():
    p = os.path.join(lib.VERIF, "corpus", "C20-regress.json")
    if not os.path.exists(p):
        return []
    return json.load(open(p))["inputs"]


def run_position_input(ctx, inp, source):
    body = [tuple(x) for x in inp["body"]]
    try:
        cname, E = make_enum(body)
        M = make_messages(cname, E)["M"]
        why = check_position(E, M, inp["pos"], inp["codec"], inp["v"])
        cls = position_class(inp["codec"], inp["v"], E)
    except Exception as e:  # noqa
        why, cls = f"raised {e!r}", "other"
        try:
            cls = position_class(inp["codec"], inp["v"], E)
        except Exception:  # noqa
            pass
    if why:
        ctx.fail("oracle", WHAT[cls], cls=cls, detail=f"({source}) {why}", input=dict(inp, kind="position"))
    return why


def run(ctx):
    import betterproto as bp

    rng = ctx.rng
    pairs, descr = [], []

    def add(model, expected, d):
        pairs.append((model, expected))
        descr.append(d)

    # ------------------------------------------------------------------ regression corpus first
    for inp in corpus_inputs():
        if inp.get("kind") == "position":
            run_position_input(ctx, inp, "corpus")
            ctx.count("corpus_inputs")

    # ------------------------------------------------------------------ class bodies and histories (T2 + API oracle)
    nrandom = 160 if not ctx.thorough else 4000
    bodies = [(b, False) for b in systematic_bodies()] + [(b, True) for b in systematic_bodies() if all(not n.startswith("__") for n, _ in b)]
    for _ in range(nrandom):
        b = random_body(rng)
        bodies.append((b, rng.random() < 0.25 and all(not n.startswith("__") for n, _ in b)))
    _, F = make_enum([("ZERO", 0), ("RED", 1), ("NEG", -1)])
    classes = []
    for body, via_exec in bodies:
        try:
            cname, E = make_enum(body, via_exec)
        except Exception as e:  # noqa
            ctx.fail("oracle", f"class body {body!r} could not be turned into an enum class: {e!r}", cls="other",
                     input={"kind": "api", "body": body})
            continue
        classes.append((body, cname, E))
        ops = random_history(rng, body, 24 if not ctx.thorough else 40)
        try:
            st0 = c_state(E)
            outs = [impl_op(E, F, op) for op in ops]
            st1 = c_state(E)
        except Exception as e:  # noqa
            ctx.fail("oracle", f"history on {body!r} raised {e!r}", cls="other", input={"kind": "api", "body": body, "ops": ops})
            continue
        add(f"run_case {q_name(cname)} {q_defn(body)} [{'; '.join(q_op(o) for o in ops)}]",
            cl([st0, cl(outs), st1]), {"kind": "api", "body": body, "ops": ops, "class": cname})
        ctx.count("histories")
        ctx.count("history_ops", len(ops))
        ctx.count("bodies_with_alias" if len({v for _, v in body}) < len(body) else "bodies_without_alias")
        if any(v < 0 for _, v in body):
            ctx.count("bodies_with_negative")
        if all(v != 0 for _, v in body):
            ctx.count("bodies_without_zero")
        if len(body) >= 2 or body[0][1] != 0:
            ctx.seen_nontrivial(("api", tuple(body), tuple(map(repr, ops))))
        try:
            why = oracle_api(ctx, body, E, rng)
        except Exception as e:  # noqa
            why = f"raised {e!r}"
        if why:
            ctx.fail("oracle", f"enum class from body {body!r}: {why}", cls="other", input={"kind": "api", "body": body})
    ctx.cov["evaluations"] += len(classes)

    # ------------------------------------------------------------------ scalar path of both codecs (T2)
    bnums = boundary_numbers()
    nscalar = 6 if not ctx.thorough else 90
    chosen = classes[:len(systematic_bodies())] + [classes[rng.randrange(len(classes))] for _ in range(nscalar)] if classes else []
    msgs = {}
    for body, cname, E in chosen:
        try:
            msgs[cname] = make_messages(cname, E)
        except Exception as e:  # noqa
            ctx.fail("oracle", f"message classes over enum {body!r} could not be built: {e!r}", cls="other", input={"kind": "api", "body": body})
    for body, cname, E in chosen:
        if cname not in msgs:
            continue
        S, R = msgs[cname]["S"], msgs[cname]["R"]
        cls_expr = f"(class_of {q_defn(body)})"
        defined = sorted({v for n, v in body if not n.startswith("__")})
        numbers = sorted(set(defined + [v + d for v in defined for d in (-1, 1)] + rng.sample(bnums, 12) + [0, -1, INT32_MIN, INT32_MAX]))
        meta = S._betterproto.meta_by_field_name["s"]
        inst = S()
        for v in numbers + [-(1 << 63), -(1 << 63) - 1, (1 << 64) - 1, 1 << 64]:
            add(f"cres CB (enum_pre (try_value {cls_expr} {coq_z(v)}))",
                guarded(lambda: bp._preprocess_single(bp.TYPE_ENUM, "", E.try_value(v)), cb), {"kind": "enum_pre", "body": body, "v": v})
            add(f"cres CZ (enum_len (try_value {cls_expr} {coq_z(v)}))",
                guarded(lambda: bp._len_preprocessed_single(bp.TYPE_ENUM, "", E.try_value(v)), cz), {"kind": "enum_len", "body": body, "v": v})
        raws = sorted({v % (1 << 64) for v in numbers} | {rng.getrandbits(rng.choice([7, 31, 32, 33, 63, 64])) for _ in range(10)}
                      | {(1 << 32) + 1, (1 << 31), (1 << 63), (1 << 64) - 1})
        for raw in raws:
            add(f"cmem_id {cls_expr} (enum_post {cls_expr} {coq_z(raw)})",
                guarded(lambda: inst._postprocess_single(bp.WIRE_VARINT, meta, "s", raw), lambda m: c_member_id(E, m)),
                {"kind": "enum_post", "body": body, "raw": raw})
            ctx.seen_nontrivial(("post", tuple(body), raw))
        # packed lists
        for _ in range(6):
            vs = [rng.choice(numbers) for _ in range(rng.choice([0, 1, 2, 3, 7]))]
            if rng.random() < 0.1:
                vs.append(rng.choice([-(1 << 63) - 1, 1 << 64]))

            def packed():
                data = bytes(R(r=[E.try_value(x) for x in vs]))
                if not data:
                    return b""
                assert data[0] == 0x0A
                ln, pos = bp.decode_varint(data, 1)
                assert pos + ln == len(data)
                return data[pos:]
            add(f"cres CB (enum_pack {lib.coq_list([coq_z(x) for x in vs])})", guarded(packed, cb), {"kind": "enum_pack", "body": body, "vs": vs})
            ok_vs = [x for x in vs if -(1 << 63) <= x < (1 << 64)]
            buf = b"".join(bp.encode_varint(x) for x in ok_vs)
            r = rng.random()
            if r < 0.2 and buf:
                buf = buf[:-1]
            elif r < 0.35:
                buf = bytes(rng.getrandbits(8) for _ in range(rng.randint(1, 14)))
            elif r < 0.4:
                buf = b"\xff" * 11 + b"\x01"
            add(f"cres (fun l => CL (map (cmem_id {cls_expr}) l)) (enum_unpack {cls_expr} {coq_bytes(buf)})",
                guarded(lambda: R().parse(b"\x0a" + bp.encode_varint(len(buf)) + buf).r, lambda l: cl([c_member_id(E, m) for m in l])),
                {"kind": "enum_unpack", "body": body, "buf": buf.hex()})
            ctx.seen_nontrivial(("unpack", tuple(body), buf))
        # dict / JSON element
        names = [n for n, _ in body] + ["NOPE"]
        for v in numbers:
            add(f"cjv (to_json_el {cls_expr} {coq_z(v)})",
                guarded(lambda: S(s=E.try_value(v)).to_dict(include_default_values=True)["s"],
                        lambda j: cb(j.encode("utf-8")) if isinstance(j, str) else (cz(j) if type(j) is int else cb(repr(j).encode()))),
                {"kind": "to_json_el", "body": body, "v": v})
            add(f"cres (cmem_id {cls_expr}) (from_json_el {cls_expr} (JNum {coq_z(v)}))",
                guarded(lambda: S().from_dict({"s": v}).s, lambda m: c_member_id(E, m)), {"kind": "from_json_el", "body": body, "j": v})
        Mm = msgs[cname]["M"]
        for v in numbers[::3]:
            add(f"cjv (to_json_el {cls_expr} {coq_z(v)})",
                guarded(lambda: Mm(m={"k": E.try_value(v)}).to_dict()["m"]["k"],
                        lambda j: cb(j.encode("utf-8")) if isinstance(j, str) else (cz(j) if type(j) is int else cb(repr(j).encode()))),
                {"kind": "to_json_el(map value)", "body": body, "v": v})
            add(f"cres (cmem_id {cls_expr}) (from_json_el {cls_expr} (JNum {coq_z(v)}))",
                guarded(lambda: Mm().from_dict({"m": {"k": v}}).m["k"], lambda m: c_member_id(E, m)),
                {"kind": "from_json_el(map value)", "body": body, "j": v})
        for n in names:
            add(f"cres (cmem_id {cls_expr}) (from_json_el {cls_expr} (JName {q_name(n)}))",
                guarded(lambda: Mm().from_dict({"m": {"k": n}}).m["k"], lambda m: c_member_id(E, m)),
                {"kind": "from_json_el(map value)", "body": body, "j": n})
            add(f"cres (cmem_id {cls_expr}) (from_json_el {cls_expr} (JName {q_name(n)}))",
                guarded(lambda: S().from_dict({"s": n}).s, lambda m: c_member_id(E, m)), {"kind": "from_json_el", "body": body, "j": n})
        for _ in range(4):
            js = [rng.choice(names) if rng.random() < 0.5 else rng.choice(numbers) for _ in range(rng.randint(1, 4))]
            qjs = lib.coq_list([f"JName {q_name(j)}" if isinstance(j, str) else f"JNum {coq_z(j)}" for j in js])
            add(f"cres (fun l => CL (map (cmem_id {cls_expr}) l)) (from_json_list {cls_expr} {qjs})",
                guarded(lambda: R().from_dict({"r": js}).r, lambda l: cl([c_member_id(E, m) for m in l])),
                {"kind": "from_json_list", "body": body, "js": js})
            vs = [rng.choice(numbers) for _ in range(rng.randint(1, 4))]
            add(f"CL (map cjv (to_json_list {cls_expr} {lib.coq_list([coq_z(x) for x in vs])}))",
                guarded(lambda: R(r=[E.try_value(x) for x in vs]).to_dict()["r"],
                        lambda l: cl([cb(j.encode("utf-8")) if isinstance(j, str) else (cz(j) if type(j) is int else cb(repr(j).encode())) for j in l])),
                {"kind": "to_json_list", "body": body, "vs": vs})
    ctx.count("scalar_path_cases", len(pairs) - ctx.dist.get("histories", 0))

    # ------------------------------------------------------------------ positions oracle (the round-trip clause, on the implementation)
    npos = 0
    for body, cname, E in chosen:
        if cname not in msgs:
            continue
        M = msgs[cname]["M"]
        defined = sorted({v for n, v in body if not n.startswith("__")})
        numbers = sorted(set(defined + [0, 1, -1, 2, -2, INT32_MIN, INT32_MAX, INT32_MIN + 1, INT32_MAX - 1] + rng.sample(bnums, 8)
                             + [rng.randint(INT32_MIN, INT32_MAX) for _ in range(3)]))
        if ctx.thorough:
            numbers = sorted(set(numbers + bnums))
        for v in numbers:
            for pos in POSITIONS:
                for codec in CODECS:
                    inp = {"kind": "position", "body": body, "pos": pos, "codec": codec, "v": v}
                    try:
                        why = check_position(E, M, pos, codec, v)
                    except Exception as e:  # noqa
                        why = f"raised {e!r}"
                    npos += 1
                    ctx.count(f"position:{pos}:{codec}")
                    ctx.count("position_defined" if v in E._value_map_ else "position_undefined")
                    if v:
                        ctx.seen_nontrivial(("pos", pos, codec, v, tuple(body)))
                    if why:
                        pc = position_class(codec, v, E)
                        ctx.fail("oracle", WHAT[pc], cls=pc, detail=why, input=inp)
    ctx.cov["evaluations"] += npos

    # ------------------------------------------------------------------ T3
    try:
        t3(ctx, sorted(set(bnums if ctx.thorough else rng.sample(bnums, 20) + [0, 1, -1, 5, -7, INT32_MIN, INT32_MAX])), rng)
    except Exception as e:  # noqa
        ctx.fail("oracle", f"reference comparison could not run: {e!r}", cls="other", no_input=True,
                 theorem_or_correspondence="T3 google.protobuf twin of the five-position message")

    # ------------------------------------------------------------------ T2 evaluation inside Coq
    ctx.cov["evaluations"] += len(pairs)
    bad = lib.coq_compare(ctx, "c20", IMPORTS, pairs, chunk=min(400, max(60, -(-len(pairs) // lib.JOBS))))
    ctx.cov["disagreements_checked"] += len(pairs)
    oracle_found_input = any(f["kind"] == "oracle" for f in ctx.failures)
    for i in bad[:10]:
        model_val = lib.coq_eval(ctx, IMPORTS, pairs[i][0])
        # without an oracle failure the case below is where model and code part ways, not an input on which the
        # property itself was seen to fail
        ctx.fail("corr", f"model and implementation disagree on {descr[i]['kind']}", input=descr[i], no_input=not oracle_found_input,
                 expected_model=model_val, observed_impl=pairs[i][1],
                 theorem_or_correspondence="T2 correspondence Model/Enum.v <-> betterproto.enum / enum paths of betterproto.Message")
    for i in (0, len(systematic_bodies()) + 3, len(pairs) // 2, len(pairs) - 1):
        if 0 <= i < len(pairs):
            ctx.sample({"case": descr[i], "model_expr": pairs[i][0][:400], "impl": pairs[i][1][:400]})

    # ------------------------------------------------------------------ T2, message level
    plain = [b for b, _, _ in classes if len({n for n, _ in b}) == len(b) and all(not n.startswith("__") for n, _ in b)]
    mbodies = [REF_BODY] + [plain[rng.randrange(len(plain))] for _ in range(2 if not ctx.thorough else 12) if plain]
    mpairs, mdescr, mprelude = message_level(ctx, rng, mbodies)
    ctx.cov["evaluations"] += len(mpairs)
    ctx.count("msg_level_cases", len(mpairs))
    mbad = lib.coq_compare(ctx, "c20msg", MSG_IMPORTS, mpairs, chunk=max(40, -(-len(mpairs) // lib.JOBS)), prelude=mprelude)
    ctx.cov["disagreements_checked"] += len(mpairs)
    oracle_found_input = any(f["kind"] == "oracle" for f in ctx.failures)
    for i in mbad[:10]:
        ctx.fail("corr", f"model and implementation disagree on the message level: {mdescr[i].get('what', mdescr[i]['kind'])}",
                 input=mdescr[i], no_input=not oracle_found_input, expected_model=pairs_expr(mpairs[i][0]), observed_impl=mpairs[i][1][:600],
                 theorem_or_correspondence="T2 message level: Model/C20Msg.v built / place / enum_field_json and the shared codec model "
                                           "<-> betterproto.Message with enum fields in the five positions")
    if mpairs:
        ctx.sample({"case": mdescr[len(mpairs) // 2], "model_expr": mpairs[len(mpairs) // 2][0][:400], "impl": mpairs[len(mpairs) // 2][1][:400]})


def finish(ctx):
    return lib.finish(
        ctx, "proof",
        "Coq theorems over a Gallina mirror of betterproto/enum.py and of the enum scalar path of both codecs "
        "(for all class bodies, all numbers, all histories) and, for the five field positions, message-level theorems obtained by "
        "instantiating C01_roundtrip / C04's theorems over the shared codec model (for all schemas and messages meeting their decidable "
        "conditions; for m = Cls(); m.f = v with no condition on the message) + executable correspondence (vm_compute) with the "
        "implementation at both levels + the property evaluated on real Enum/Message classes in the five field positions + google.protobuf twin",
        ASSUMPTIONS, TRUSTED, RULE,
        extra_cov={"exhaustive": False,
                   "explanation": "theorems are unbounded; the correspondence and the position oracle are sampled (systematic shapes first)"})


def replay(ctx, obj):
    inp = obj.get("input") or {}
    kind = inp.get("kind")
    print(json.dumps({k: obj.get(k) for k in ("kind", "what", "cls", "input")}, indent=1, default=repr))
    if kind == "position":
        why = run_position_input(ctx, inp, "replay")
        print("still failing: " + why if why else "passes on this tree")
        return 1 if why else 0
    if kind == "raw-varint":
        import betterproto as bp
        cname, E = make_enum([tuple(x) for x in inp["body"]])
        M = make_messages(cname, E)["M"]
        got = int(M().parse(b"\x08" + bp.encode_varint(inp["raw"])).s)
        want = ((inp["raw"] & 0xFFFFFFFF) ^ 0x80000000) - 0x80000000
        print(f"varint {inp['raw']} in an enum field reads as {got}; int32 truncation gives {want}")
        return 0 if got == want else 1
    if kind and kind.startswith("msg-level") and "pos" in inp:
        why = replay_msg_level([tuple(x) for x in inp["body"]], inp["pos"], inp["v"])
        print("still failing: " + why if why else "the implementation side of this message-level case passes on this tree "
              "(a correspondence case: re-run ./check C20 for the model side)")
        return 1 if why else 0
    if kind == "api":
        body = [tuple(x) for x in inp["body"]]
        cname, E = make_enum(body)
        why = oracle_api(ctx, body, E, ctx.rng)
        print("still failing: " + why if why else "API oracle passes on this tree (a correspondence case: re-run ./check C20 for the model side)")
        return 1 if why else 0
    print("nothing to re-run for this replay kind; re-run ./check C20")
    return 0
