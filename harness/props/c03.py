"""C03 — the protoc plugin's output implements the schema (translation validation).

Stages (after build + audit of coq/Properties/C03.v, done by harness.main):
  A  function-level correspondence: is_map, is_oneof, parse_source_type_name, field_wraps, field_type,
     traverse of the REAL plugin modules against Model/Plugin.v on thousands of small inputs;
  B  pipeline: grammar-generated .proto batches -> grpc_tools.protoc with the REAL plugin and
     --descriptor_set_out -> import of the generated packages in a subprocess -> dataclass metadata and
     resolved type hints of every class, compared
       (a) with the model's class table for the same FileDescriptorSet (evaluated inside Coq),
       (b) with the descriptor itself, read independently through google.protobuf's DescriptorPool (oracle),
       (c) with the Coq specification class_table_of (so the theorem's right-hand side is tied as well);
     protoc_wf and names_ok are evaluated in Coq on every descriptor set (the theorem's premises);
  C  the repository's tests/inputs corpus through the same pipeline;
  D  witness streams: one schema per open known-finding class, and the regression inputs of proposed fixes;
  E  bundled descriptor libraries against google.protobuf's own descriptors (the oracle of C03_bundled_agree);
  F  the bridge to the runtime codec model (C03_generated_schema_ok / C03_generated_roundtrip): for every run of B-D
     without a known-finding class
       (a) the runtime schema DERIVED FROM THE REAL generated classes (dataclass metadata + resolved hints, numbered the
           way harness/msggen.py numbers a schema) is compared with the model's schema_of_table, evaluated in Coq on
           reflect (compile D) and on class_table_of D for the descriptor set protoc printed;
       (b) bridge_ok D, table_ok, c01_schema_ok and, class by class, wf_class are evaluated in Coq and compared with an
           independent Python reading of the descriptor set (the theorem's premise and conclusion, instance by instance);
       (c) msggen schemas (the systematic matrix + random ones, the C01 generator) are written out as .proto text, sent
           through protoc and the real plugin, and schema_of_table of the resulting descriptor set must be the schema
           literal msggen prints for them (premises true, conclusion true: non-vacuity on protoc's real output);
       (d) oracle on the implementation: every generated message class is instantiated with one non-default value per
           field and must survive parse(bytes(m)) == m with identical re-encoding (the conclusion of C03_generated_roundtrip
           on the real classes).
"""
import json
import os
import re
import subprocess
import types
from concurrent.futures import ThreadPoolExecutor

from .. import lib
from .. import plugin_util as pu
from .. import c03_protogen as G
from ..lib import cz, cb, cl, ce, coq_bytes, coq_z, CN, cbool

# Model.Object after Spec.Descriptor: in the case files the unqualified PyInt ... are the runtime model's (msggen literals)
IMPORTS = ("Spec.Descriptor gen.C03Tables Model.Plugin Proofs.PluginP Proofs.PluginWitP "
           "Model.Types Model.Object Model.WellFormed Model.C01Def Model.C03Bridge Proofs.C03BridgeWit")
LEVEL = "translation_validation"

TRUSTED = [
    "Coq 8.16.1 kernel and vm_compute (no native_compute); full .vo build via coq_makefile",
    "axioms: none (every theorem of Properties/C03.v is 'Closed under the global context')",
    "hand-written model coq/Model/Plugin.v tied to /repo by executable correspondence (function level and whole pipeline): "
    "model expressions are evaluated by vm_compute inside Coq on the FileDescriptorSet protoc emitted for the same sources",
    "specification coq/Spec/Descriptor.v (meaning of a descriptor) tied to google.protobuf's DescriptorPool reading of the same set",
    "translator harness/gen_c03.py (reflection of the plugin's tables and of both bundled google.protobuf libraries into coq/gen/C03Tables.v)",
    "the naming functions (pythonize_field_name / class_name / enum_member_name) are Section variables of the theorems; "
    "the harness instantiates them with the values of the real functions and evaluates names_ok on them",
    "Jinja rendering, Python's parser/importer and class-body name binding are exercised for real but not modelled; "
    "ruff is absent from the sandbox (pass-through shim): import sorting / unused-import removal / formatting are not exercised",
    "oracles: grpc_tools.protoc (descriptor sets), google.protobuf DescriptorPool, CPython dataclasses/typing",
    "Python side: generator, descriptor -> Gallina printer, canonicalisation of classes to (name, number, proto type, map types, group, wraps, optional, hint)",
    "bridge (stage F): Model/C03Bridge.v schema_of_table is a DEFINITION of how a class table is read as a runtime schema; it is tied to the code by "
    "comparing it with the schema the harness derives from the real generated classes (metadata + hints resolved by class identity) and with the "
    "literal harness/msggen.py prints for the same schema; bridge_ok is compared with an independent Python reading of the descriptor set; "
    "the runtime model itself (Model/Object.v ...) is tied to the code by the checks of C01 C02 C04 ..., not here",
]
ASSUMPTIONS = [
    "str is modelled as its UTF-8 bytes; lower()/upper() are ASCII-only in the model (protoc identifiers are ASCII; checked by protoc_wf)",
    "class identity of a resolved type hint is canonicalised to (proto package, class name) by object identity inside the importing subprocess",
    "INCLUDE_GOOGLE, pydantic_dataclasses and typing.* plugin options are not modelled here (C18)",
    "a user package whose first segment is `betterproto` (absolute import path) is outside the generator",
    "bridge theorems: the runtime model has classes only for Timestamp, Duration and the nine wrappers, and its wf_schema has no wrapped list "
    "elements / oneof members / proto3-optional wrappers: bridge_ok excludes these shapes (betterproto handles them, the C01..C10 theorems do not "
    "speak about them); map values of a wrapper type are excluded because the real classes fail on them (K34)",
    "the round-trip smoke of stage F (d) uses ONE sample value per class; the statement for all values is C03_generated_roundtrip (over the model)",
]
RULE = ("schemas: systematic pass (every scalar kind x {singular, repeated, optional, oneof member, map key, map value}, all "
        "well-known types, mutual recursion, keyword/builtin field names, comment placements) then random multi-file schemas "
        "(1-3 files, related packages, nesting depth <= 3 quick / 5 thorough) + tests/inputs corpus (upstream xfails skipped) + "
        "one witness per known-finding class; non-trivial = a message class with at least one field or an enum with at least "
        "two members; distinct = distinct canonical class shape (field kinds, cardinalities, hints); stage F: every run above without a "
        "known-finding class + msggen schemas (matrix + 5 random quick / 40 thorough) written as .proto and sent through protoc and the plugin")


# ======================================================================================================
# Gallina printers
# ======================================================================================================
def s(x: str) -> str:
    return coq_bytes(x.encode("utf-8"))


def g_list(items):
    return "[" + "; ".join(items) + "]"


def g_field(f):
    oi = f"(Some {coq_z(f.oneof_index)})" if f.HasField("oneof_index") else "None"
    return (f"(mkField {s(f.name)} {coq_z(f.number)} {coq_z(f.label)} {coq_z(f.type)} {s(f.type_name)} {oi} "
            f"{'true' if f.proto3_optional else 'false'})")


def g_enum(e):
    return f"(mkEnum {s(e.name)} {g_list(f'({s(v.name)}, {coq_z(v.number)})' for v in e.value)})"


def g_msg(m):
    return (f"(mkMsg {s(m.name)} {g_list(g_field(f) for f in m.field)} {g_list(g_msg(n) for n in m.nested_type)} "
            f"{g_list(g_enum(e) for e in m.enum_type)} {g_list(s(o.name) for o in m.oneof_decl)} "
            f"{'true' if m.options.map_entry else 'false'})")


def g_file(f):
    return (f"(mkFile {s(f.name)} {s(f.package)} {g_list(g_msg(m) for m in f.message_type)} "
            f"{g_list(g_enum(e) for e in f.enum_type)})")


def g_descriptor(fds):
    return "[" + ";\n ".join(g_file(f) for f in fds.file) + "]"


def g_table(pairs):
    return g_list(f"({s(a)}, {s(b)})" for a, b in pairs)


# ======================================================================================================
# walking a FileDescriptorSet (raw protos)
# ======================================================================================================
def walk_file(f):
    """yields ('msg'|'enum', path list, proto) in the plugin's / the spec's declaration preorder"""
    out = []

    def walk_msg(m, pre):
        p = pre + [m.name]
        out.append(("msg", p, m))
        for e in m.enum_type:
            out.append(("enum", p + [e.name], e))
        for n in m.nested_type:
            walk_msg(n, p)

    for e in f.enum_type:
        out.append(("enum", [e.name], e))
    for m in f.message_type:
        walk_msg(m, [])
    return out


def naming():
    from betterproto.compile import naming as N
    from betterproto.compile.importing import parse_source_type_name
    return N, parse_source_type_name


def name_tables(fds):
    """the values of the real naming functions on every string the model or the spec can ask for"""
    N, parse = naming()
    fields, classes, members = {}, {}, {}
    for f in fds.file:
        for kind, path, obj in walk_file(f):
            flat = "".join("_" + x for x in path)
            dotted = ".".join(path)
            for nm in (flat, dotted):
                classes[nm] = N.pythonize_class_name(nm)
            if kind == "msg":
                for fld in obj.field:
                    fields[fld.name] = N.pythonize_field_name(fld.name)
                    if fld.type_name:
                        nm = parse(fld.type_name)[1]
                        classes[nm] = N.pythonize_class_name(nm)
            else:
                for v in obj.value:
                    members[v.name + "\x00" + flat] = N.pythonize_enum_member_name(v.name, flat)
    return fields, classes, members


# ======================================================================================================
# hazards: which known classes a descriptor set belongs to (drives the generator, labels failures)
# ======================================================================================================
BUILTIN_TYPE_NAMES = {"int", "float", "bool", "str", "bytes"}
SCALAR_PY = {1: "float", 2: "float", 3: "int", 4: "int", 5: "int", 6: "int", 7: "int", 8: "bool", 9: "str", 12: "bytes",
             13: "int", 15: "int", 16: "int", 17: "int", 18: "int"}
WRAPPER_PY = {"DoubleValue": "float", "FloatValue": "float", "Int64Value": "int", "UInt64Value": "int", "Int32Value": "int",
              "UInt32Value": "int", "BoolValue": "bool", "StringValue": "str", "BytesValue": "bytes"}
WRAPPER_KIND = {"DoubleValue": "double", "FloatValue": "float", "Int64Value": "int64", "UInt64Value": "uint64",
                "Int32Value": "int32", "UInt32Value": "uint32", "BoolValue": "bool", "StringValue": "string",
                "BytesValue": "bytes"}
_API = None


def api_names():
    global _API
    if _API is None:
        import betterproto
        _API = set(dir(betterproto.Message))
    return _API


def map_entry_name(field_name):
    out, cap = [], True
    for c in field_name:
        if c == "_":
            cap = True
        elif cap:
            out.append(c.upper() if "a" <= c <= "z" else c)
            cap = False
        else:
            out.append(c)
    return "".join(out) + "Entry"


def hazards(fds):
    """returns (names_ok conjuncts as the Coq predicate evaluates them, set of failure classes present)"""
    import builtins as B
    import keyword
    N, parse = naming()
    conj = {"pkg_names_ok": True, "flat_dotted_ok": True, "class_nodup": True, "fields_nodup": True,
            "members_nodup": True, "map_keys_ok": True, "wraps_ok": True}
    classes = set()
    by_pkg = {}
    for f in fds.file:
        by_pkg.setdefault(f.package, []).append(f)
        if re.search("[A-Z]", f.package) or any(not re.search("[A-Z]", m.name) for m in f.message_type) \
                or any(not re.search("[A-Z]", e.name) for e in f.enum_type):
            conj["pkg_names_ok"] = False
            classes.add("package_regex")
    for pkg, files in by_pkg.items():
        out_pkg = pkg != "google.protobuf"
        if any(keyword.iskeyword(seg) for seg in pkg.split(".")):
            classes.add("keyword_package_segment")
        names = []
        has_self_named = False     # some field with py_type == py_name in dir(builtins): `import builtins` is emitted
        msgs = []
        for f in files:
            for kind, path, obj in walk_file(f):
                flat = "".join("_" + x for x in path)
                dotted = ".".join(path)
                cn = N.pythonize_class_name(dotted)
                if N.pythonize_class_name(flat) != cn:
                    conj["flat_dotted_ok"] = False
                    classes.add("class_name_collision")
                if kind == "msg" and obj.options.map_entry:
                    continue
                names.append(cn)
                if out_pkg and (not cn.isidentifier() or keyword.iskeyword(cn)):
                    classes.add("invalid_class_name")
                if out_pkg and cn in ("List", "Dict", "Optional", "dataclass", "betterproto", "builtins", "datetime",
                                      "timedelta", "warnings"):
                    classes.add("typing_name_shadow")
                if kind == "enum":
                    mem = [N.pythonize_enum_member_name(v.name, flat) for v in obj.value]
                    if len(set(mem)) != len(mem):
                        conj["members_nodup"] = False
                        classes.add("member_name_collision")
                else:
                    msgs.append((f, path, obj))
        if len(set(names)) != len(names) and out_pkg:
            conj["class_nodup"] = False
            classes.add("class_name_collision")
        for f, path, m in msgs + [(f, p, o) for f in files for k, p, o in walk_file(f) if k == "msg" and o.options.map_entry]:
            py = [N.pythonize_field_name(x.name) for x in m.field]
            if len(set(py)) != len(py):
                conj["fields_nodup"] = False
                classes.add("member_name_collision")
            for x, pn in zip(m.field, py):
                if x.type in SCALAR_PY and SCALAR_PY[x.type] == pn and pn in dir(B):
                    has_self_named = True
        for f, path, m in msgs:
            full = "." + (pkg + "." if pkg else "") + ".".join(path)
            shadowed = set()
            for x in m.field:
                pn = N.pythonize_field_name(x.name)
                if out_pkg and (pn in api_names() or pn in ("betterproto", "builtins", "datetime", "timedelta")):
                    classes.add("api_shadow")
                # --- map heuristic (mirror of map_keys_ok_msg)
                key = x.name.replace("_", "").lower() + "entry"
                cands = [n for n in m.nested_type if n.name.replace("_", "").lower() == key and n.options.map_entry]
                spec_entry = None
                if x.type == 11:
                    for n in m.nested_type:
                        if n.options.map_entry and full + "." + n.name == x.type_name:
                            spec_entry = n
                            break
                heur = x.type == 11 and x.type_name.split(".").pop().lower() == key and bool(cands)
                if spec_entry is not None:
                    if any(n.name != spec_entry.name for n in cands):
                        conj["map_keys_ok"] = False
                        classes.add("map_heuristic")
                elif heur:
                    conj["map_keys_ok"] = False
                    classes.add("map_heuristic")
                # --- wraps
                mw = re.match(r"\.google\.protobuf\.(.+)Value$", x.type_name)
                model_wraps = None
                if mw:
                    import betterproto
                    v = getattr(betterproto, "TYPE_" + mw.group(1).upper(), None)
                    model_wraps = v if isinstance(v, str) else None
                tail = x.type_name[len(".google.protobuf."):] if x.type_name.startswith(".google.protobuf.") else None
                spec_wraps = WRAPPER_KIND.get(tail) if x.type == 11 else None
                if model_wraps != spec_wraps:
                    conj["wraps_ok"] = False
                    if out_pkg:
                        classes.add("enumvalue_wraps")
                # --- builtin type names rebound in the class body
                uses_plain, uses_generic = set(), set()
                if spec_entry is not None or heur:
                    e = spec_entry or cands[-1]
                    for kv in e.field[:2]:
                        if kv.type in SCALAR_PY:
                            uses_generic.add(SCALAR_PY[kv.type])
                        elif kv.type_name.startswith(".google.protobuf.") and kv.type_name.rsplit(".", 1)[-1] in WRAPPER_PY:
                            uses_generic.add(WRAPPER_PY[kv.type_name.rsplit(".", 1)[-1]])
                elif x.type in SCALAR_PY:
                    uses_plain.add(SCALAR_PY[x.type])
                elif tail in WRAPPER_PY:
                    uses_generic.add(WRAPPER_PY[tail])
                # `name: annotation = value` binds the name BEFORE the annotation is evaluated
                if pn in BUILTIN_TYPE_NAMES:
                    shadowed.add(pn)
                if out_pkg and uses_generic & shadowed:
                    classes.add("builtin_shadow_generic")
                if out_pkg and uses_plain & shadowed and not has_self_named:
                    classes.add("builtins_import")
    # comments (F12)
    for f in fds.file:
        if f.package == "google.protobuf":
            continue
        for loc in f.source_code_info.location:
            p = list(loc.path)
            if not p or p[0] not in (4, 5, 6):
                continue
            indent = 8 if (p[0] == 6 and len(p) == 4) else 4
            lines = comment_lines(loc)
            if any("\\" in l or '"""' in l for l in lines) or \
                    (len(lines) == 1 and len(lines[0]) < 79 - indent - 6 and lines[0].endswith('"')):
                classes.add("docstring_escape")
    return conj, classes


def comment_lines(loc):
    """mirror of get_comment's line processing"""
    all_comments = list(loc.leading_detached_comments)
    if loc.leading_comments:
        all_comments.append(loc.leading_comments)
    if loc.trailing_comments:
        all_comments.append(loc.trailing_comments)
    lines = []
    for c in all_comments:
        lines += c.split("\n")
        lines.append("")
    lines = [l for i, l in enumerate(lines) if l or (i == 0 or lines[i - 1])]
    if lines and not lines[-1]:
        lines.pop()
    return [l[1:] if l and l[0] == " " else l for l in lines]


# ======================================================================================================
# running protoc + the real plugin, importing the result in a subprocess
# ======================================================================================================
REFLECT = r'''
import dataclasses, datetime, importlib, json, sys, typing, traceback
root = sys.argv[1]
pkgs = json.loads(sys.argv[2])
import betterproto
gp = importlib.import_module("betterproto.lib.google.protobuf")
out = {"modules": {}}
mods = {}
for pkg in pkgs:
    name = root + ("." + pkg if pkg else "")
    try:
        mods[pkg] = importlib.import_module(name)
    except BaseException as e:
        out["modules"][pkg] = {"import_error": f"{type(e).__name__}: {e}"[:400]}
ident = {}
for pkg, m in mods.items():
    for n, c in list(vars(m).items()):
        if isinstance(c, type) and c.__module__ == m.__name__:
            ident[id(c)] = (pkg, n)
for n, c in vars(gp).items():
    if isinstance(c, type):
        ident.setdefault(id(c), ("betterproto.lib.google.protobuf", n))
NoneType = type(None)
def canon(h):
    if h is bool: return ["bool"]
    if h is int: return ["int"]
    if h is float: return ["float"]
    if h is str: return ["str"]
    if h is bytes: return ["bytes"]
    if h is datetime.datetime: return ["datetime"]
    if h is datetime.timedelta: return ["timedelta"]
    o = typing.get_origin(h); a = typing.get_args(h)
    if o is typing.Union and len(a) == 2 and NoneType in a:
        return ["optional", canon(a[0] if a[1] is NoneType else a[1])]
    if o is list and len(a) == 1: return ["list", canon(a[0])]
    if o is dict and len(a) == 2: return ["dict", canon(a[0]), canon(a[1])]
    if isinstance(h, type) and id(h) in ident: return ["ref", ident[id(h)][0], ident[id(h)][1]]
    return ["other", repr(h)[:120]]
UTC = datetime.timezone.utc
def sample_value(h, depth):
    """one non-default value of the resolved hint h"""
    if h is bool: return True
    if h is int: return 7
    if h is float: return 1.5
    if h is str: return "x\u00e9"
    if h is bytes: return b"\x00y"
    if h is datetime.datetime: return datetime.datetime(2020, 1, 2, 3, 4, 5, 6000, tzinfo=UTC)
    if h is datetime.timedelta: return datetime.timedelta(days=1, seconds=2, microseconds=3000)
    o = typing.get_origin(h); a = typing.get_args(h)
    if o is typing.Union and len(a) == 2 and NoneType in a:
        return sample_value(a[0] if a[1] is NoneType else a[1], depth)
    if o is list and len(a) == 1: return [sample_value(a[0], depth), sample_value(a[0], depth)]
    if o is dict and len(a) == 2: return {sample_value(a[0], depth): sample_value(a[1], depth)}
    if isinstance(h, type) and issubclass(h, betterproto.Enum):
        mem = list(h.__members__.values())
        nz = [x for x in mem if int(x.value) != 0]
        return (nz or mem)[0]
    if isinstance(h, type) and issubclass(h, betterproto.Message):
        if depth <= 0:
            return h()
        return h(**sample_kwargs(h, h._type_hints(), depth - 1))
    raise TypeError(f"no sample value for hint {h!r}")
def wrapped_map_value(h):
    a = typing.get_args(h)
    return typing.get_origin(h) is dict and len(a) == 2 and typing.get_origin(a[1]) is typing.Union
def sample_kwargs(c, hints, depth, top=False):
    kw, groups = {}, set()
    for f in dataclasses.fields(c):
        meta = f.metadata.get("betterproto")
        if meta.group is not None:
            if meta.group in groups:
                continue
            groups.add(meta.group)
        if wrapped_map_value(hints[f.name]) and not top:
            continue        # known finding K34 is exhibited by the class that owns the field, not by every class that refers to it
        kw[f.name] = sample_value(hints[f.name], depth)
    return kw
for pkg, m in mods.items():
    classes = []
    for n, c in list(vars(m).items()):
        if not (isinstance(c, type) and c.__module__ == m.__name__):
            continue
        if issubclass(c, betterproto.Message):
            ent = {"name": n, "kind": "message", "doc": c.__doc__, "fields": []}
            try:
                hints = c._type_hints()
            except BaseException as e:
                hints = None
                ent["hints_error"] = f"{type(e).__name__}: {e}"[:300]
            for f in dataclasses.fields(c):
                meta = f.metadata.get("betterproto")
                ent["fields"].append({
                    "name": f.name, "number": meta.number, "proto_type": meta.proto_type,
                    "map_types": list(meta.map_types) if meta.map_types else None, "group": meta.group,
                    "wraps": meta.wraps, "optional": bool(meta.optional),
                    "hint": canon(hints[f.name]) if hints is not None and f.name in hints else ["other", "unresolved"]})
            try:
                # the class can be used: construct, serialise, parse; the Message API is still there (K9)
                i = c(); b = bytes(i); c().parse(b""); c.FromString(b"")
                for api in ("parse", "to_dict", "from_dict", "to_json", "from_json", "to_pydict", "from_pydict", "dump",
                            "load", "is_set", "FromString", "SerializeToString"):
                    if not callable(getattr(i, api, None)):
                        raise TypeError(f"Message.{api} is shadowed by a field")
                ent["smoke"] = "ok"
            except BaseException as e:
                ent["smoke"] = f"{type(e).__name__}: {e}"[:300]
            if ent["smoke"] == "ok" and hints is not None:
                try:
                    kw = sample_kwargs(c, hints, 2, top=True)
                    ent["rt_fields"] = sorted(kw)
                    v1 = c(**kw); b = bytes(v1); v2 = c().parse(b)
                    if not (v2 == v1):
                        ent["rt"] = "parse(bytes(m)) != m for m = " + repr(v1)[:300]
                    elif bytes(v2) != b:
                        ent["rt"] = "bytes(parse(bytes(m))) != bytes(m) for m = " + repr(v1)[:300]
                    else:
                        ent["rt"] = "ok"
                except BaseException as e:
                    ent["rt"] = f"{type(e).__name__}: {e}"[:300] + " | " + traceback.format_exc()[-400:]
            classes.append(ent)
        elif issubclass(c, betterproto.Enum):
            ent = {"name": n, "kind": "enum", "doc": c.__doc__}
            try:
                ent["members"] = [[k, int(v.value)] for k, v in c.__members__.items()]
            except BaseException as e:
                ent["members"] = []
                ent["members_error"] = f"{type(e).__name__}: {e}"[:300]
            classes.append(ent)
    out["modules"][pkg] = {"classes": classes}
print("@@REFLECT@@" + json.dumps(out))
'''


class Run:
    """one protoc invocation over a set of .proto files"""

    def __init__(self, label, files, tags=(), include_dirs=()):
        self.label, self.files, self.tags = label, files, list(tags)
        self.include_dirs = list(include_dirs)
        self.rc = None
        self.out = ""
        self.fds = None
        self.reflect = None
        self.dirs = None
        self.error = None


def run_protoc(ctx, run: Run):
    from google.protobuf import descriptor_pb2
    base = ctx.work
    root = "r_" + re.sub(r"[^a-zA-Z0-9]", "_", run.label)
    run.root = root
    proto_dir = os.path.join(base, root + "_proto")
    out_dir = os.path.join(base, root)
    os.makedirs(proto_dir, exist_ok=True)
    os.makedirs(out_dir, exist_ok=True)
    pu.write_protos(proto_dir, run.files)
    ds = os.path.join(base, root + ".pb")
    inc = []
    for d in [proto_dir] + run.include_dirs + [pu.proto_include()]:
        inc += ["-I", d]
    # one invocation produces both the descriptor set and the plugin's output; when it fails, protoc alone
    # tells a schema that protoc rejects from a failure of the plugin
    base_cmd = [lib.PY, "-W", "ignore", "-m", "grpc_tools.protoc"] + inc
    ds_args = [f"--descriptor_set_out={ds}", "--include_imports", "--include_source_info"]
    r = subprocess.run(base_cmd + ds_args + [f"--python_betterproto_out={out_dir}"] + sorted(run.files),
                       env=pu._env(base), capture_output=True, text=True, timeout=600, cwd=out_dir)
    if r.returncode != 0:
        r0 = subprocess.run(base_cmd + ds_args + sorted(run.files), env=pu._env(base), capture_output=True, text=True,
                            timeout=600, cwd=out_dir)
        if r0.returncode != 0:
            run.rc = "protoc-rejected"
            run.out = r0.stderr[-1500:]
            return run
    fds = descriptor_pb2.FileDescriptorSet()
    with open(ds, "rb") as fh:
        fds.ParseFromString(fh.read())
    run.fds = fds
    run.out = "\n".join(l for l in (r.stdout + r.stderr).splitlines() if "WARNING conda" not in l)[-3000:]
    run.rc = r.returncode
    if r.returncode != 0:
        return run
    dirs = []
    for d, _, fs in os.walk(out_dir):
        if "__init__.py" in fs:
            rel = os.path.relpath(d, out_dir)
            dirs.append([] if rel == "." else rel.split(os.sep))
    run.dirs = dirs
    pkgs = out_packages(fds)
    e = pu._env(base)
    e["PYTHONPATH"] = e["PYTHONPATH"] + ":" + base
    r = subprocess.run([lib.PY, "-W", "ignore", "-c", REFLECT, root, json.dumps(pkgs)], env=e, capture_output=True,
                       text=True, timeout=600)
    m = re.search(r"@@REFLECT@@(.*)", r.stdout)
    if not m:
        run.error = "reflect subprocess failed: " + (r.stderr or r.stdout)[-1500:]
        return run
    run.reflect = json.loads(m.group(1))
    return run


def out_packages(fds):
    pk = []
    for f in fds.file:
        if f.package not in pk:
            pk.append(f.package)
    return [p for p in pk if p != "google.protobuf"]


# ======================================================================================================
# canonical values
# ======================================================================================================
HT = {"int": 0, "float": 1, "bool": 2, "str": 3, "bytes": 4, "datetime": 5, "timedelta": 6}


def cv_hint(h):
    k = h[0]
    if k in HT:
        return cl([cz(HT[k])])
    if k == "ref":
        return cl([cz(7), cb(h[1].encode()), cb(h[2].encode())])
    if k == "optional":
        return cl([cz(8), cv_hint(h[1])])
    if k == "list":
        return cl([cz(9), cv_hint(h[1])])
    if k == "dict":
        return cl([cz(10), cv_hint(h[1]), cv_hint(h[2])])
    return cl([cz(99), cb(h[1].encode()[:60])])


def cv_opt_s(x):
    return CN if x is None else cb(str(x).encode())


def cv_class(c):
    if c["kind"] == "message":
        fs = [cl([cb(f["name"].encode()), cz(f["number"]), cb(str(f["proto_type"]).encode()),
                  CN if not f["map_types"] else cl([cb(str(f["map_types"][0]).encode()), cb(str(f["map_types"][1]).encode())]),
                  cv_opt_s(f["group"]), cv_opt_s(f["wraps"]), cbool(f["optional"]), cv_hint(f["hint"])]) for f in c["fields"]]
        return cl([cb(c["name"].encode()), cz(0), cl(fs)])
    return cl([cb(c["name"].encode()), cz(1), cl([cl([cb(n.encode()), cz(v)]) for n, v in c["members"]])])


def cv_module(pkg, mod):
    if "import_error" in mod:
        return ce("EOther")
    return cl([cb(pkg.encode()), cl([cv_class(c) for c in mod["classes"]])])


# ======================================================================================================
# the oracle: the property itself, judged against google.protobuf's reading of the descriptor set
# ======================================================================================================
def oracle_expected(fds):
    """{package: {class name: spec}} from the DescriptorPool (type resolution, map entries, oneofs done by
    google.protobuf) and the real naming functions"""
    from google.protobuf import descriptor_pool
    from google.protobuf.descriptor import FieldDescriptor as FD
    N, _ = naming()
    pool = descriptor_pool.DescriptorPool()
    for f in fds.file:
        pool.Add(f)
    exp = {}

    def rel_path(d):
        pkg = d.file.package
        return d.full_name[len(pkg) + 1:] if pkg else d.full_name

    def module_of(d):
        return "betterproto.lib.google.protobuf" if d.file.package == "google.protobuf" else d.file.package

    def value_hint(fd):
        if fd.type == FD.TYPE_MESSAGE:
            fn = fd.message_type.full_name
            if fn.startswith("google.protobuf.") and fn[16:] in WRAPPER_PY:
                return ["optional", [WRAPPER_PY[fn[16:]]]]
            if fn == "google.protobuf.Timestamp":
                return ["datetime"]
            if fn == "google.protobuf.Duration":
                return ["timedelta"]
            return ["ref", module_of(fd.message_type), N.pythonize_class_name(rel_path(fd.message_type))]
        if fd.type == FD.TYPE_ENUM:
            return ["ref", module_of(fd.enum_type), N.pythonize_class_name(rel_path(fd.enum_type))]
        cpp = {FD.CPPTYPE_INT32: "int", FD.CPPTYPE_INT64: "int", FD.CPPTYPE_UINT32: "int", FD.CPPTYPE_UINT64: "int",
               FD.CPPTYPE_DOUBLE: "float", FD.CPPTYPE_FLOAT: "float", FD.CPPTYPE_BOOL: "bool"}
        if fd.cpp_type in cpp:
            return [cpp[fd.cpp_type]]
        return ["str"] if fd.type == FD.TYPE_STRING else ["bytes"]

    def kind(fd):
        from google.protobuf import descriptor_pb2
        return descriptor_pb2.FieldDescriptorProto.Type.Name(fd.type)[5:].lower()

    def do_msg(md, raw, table):
        if md.GetOptions().map_entry:
            return
        fields = []
        raw_by_name = {x.name: x for x in raw.field}
        for fd in md.fields:
            rf = raw_by_name[fd.name]
            ent = {"name": N.pythonize_field_name(fd.name), "number": fd.number, "map_types": None, "group": None,
                   "wraps": None, "optional": False}
            is_map = (fd.type == FD.TYPE_MESSAGE and fd.message_type.GetOptions().map_entry
                      and fd.message_type.containing_type is md)
            if is_map:
                k, v = fd.message_type.fields_by_number[1], fd.message_type.fields_by_number[2]
                ent.update(proto_type="map", map_types=[kind(k), kind(v)], hint=["dict", value_hint(k), value_hint(v)])
            else:
                vh = value_hint(fd)
                ent["proto_type"] = kind(fd)
                ent["optional"] = bool(rf.proto3_optional)
                if fd.type == FD.TYPE_MESSAGE and fd.message_type.full_name.startswith("google.protobuf.") \
                        and fd.message_type.full_name[16:] in WRAPPER_KIND:
                    ent["wraps"] = WRAPPER_KIND[fd.message_type.full_name[16:]]
                if fd.containing_oneof is not None and not rf.proto3_optional:
                    ent["group"] = fd.containing_oneof.name
                if fd.is_repeated:
                    ent["hint"] = ["list", vh]
                elif rf.proto3_optional:
                    ent["hint"] = vh if vh[0] == "optional" else ["optional", vh]
                else:
                    ent["hint"] = vh
            fields.append(ent)
        table.append({"name": N.pythonize_class_name(rel_path(md)), "kind": "message", "fields": fields,
                      "doc": docs.get((md.file.name, rel_path(md)))})
        raw_nested = {x.name: x for x in raw.nested_type}
        for n in md.nested_types:
            do_msg(n, raw_nested[n.name], table)

    def do_enums(container, table, flat_prefix):
        for ed in container:
            flat = flat_prefix + "_" + ed.name
            table.append({"name": N.pythonize_class_name(rel_path(ed)), "kind": "enum",
                          "doc": docs.get((ed.file.name, rel_path(ed))),
                          "members": [[N.pythonize_enum_member_name(v.name, flat), v.number] for v in ed.values]})

    def enums_below(md, table, flat_prefix):
        flat = flat_prefix + "_" + md.name
        do_enums(md.enum_types, table, flat)
        for n in md.nested_types:
            enums_below(n, table, flat)

    # comments protoc attached to each message / enum, by descriptor.proto's path numbering
    docs = {}
    for f in fds.file:
        by_path = {tuple(loc.path): loc for loc in f.source_code_info.location}

        def note(path, dotted):
            loc = by_path.get(tuple(path))
            if loc is not None:
                lines = comment_lines(loc)
                if any(l.strip() for l in lines):
                    docs[(f.name, dotted)] = " ".join(" ".join(lines).split())

        def rec(m, path, dotted):
            note(path, dotted)
            for j, e in enumerate(m.enum_type):
                note(path + [4, j], dotted + "." + e.name)
            for j, n in enumerate(m.nested_type):
                rec(n, path + [3, j], dotted + "." + n.name)
        for i, e in enumerate(f.enum_type):
            note([5, i], e.name)
        for i, m in enumerate(f.message_type):
            rec(m, [4, i], m.name)
    for f in fds.file:
        if f.package == "google.protobuf":
            continue
        fdesc = pool.FindFileByName(f.name)
        table = exp.setdefault(f.package, [])
        do_enums(fdesc.enum_types_by_name.values(), table, "")
        raw_by_name = {m.name: m for m in f.message_type}
        for md in fdesc.message_types_by_name.values():
            enums_below(md, table, "")
        for md in fdesc.message_types_by_name.values():
            do_msg(md, raw_by_name[md.name], table)
    return exp


def oracle_compare(run, expected):
    """list of human-readable differences between the imported package and the descriptor"""
    diffs = []
    for pkg, exp_classes in expected.items():
        mod = run.reflect["modules"].get(pkg)
        if mod is None:
            diffs.append(f"package {pkg!r}: no module was generated")
            continue
        if "import_error" in mod:
            diffs.append(f"package {pkg!r}: the generated module does not import: {mod['import_error']}")
            continue
        real = {}
        for c in mod["classes"]:
            real.setdefault(c["name"], []).append(c)
        exp_names = [c["name"] for c in exp_classes]
        if len(mod["classes"]) != len(exp_classes):
            diffs.append(f"package {pkg!r}: {len(exp_classes)} messages+enums in the schema, {len(mod['classes'])} classes in the module "
                         f"(schema: {sorted(exp_names)}, module: {sorted(real)})")
        for ec in exp_classes:
            rc = real.get(ec["name"])
            if not rc:
                diffs.append(f"{pkg}.{ec['name']}: no class for this {ec['kind']}")
                continue
            rc = rc[0]
            if ec.get("doc") and " ".join((rc.get("doc") or "").split()) != ec["doc"]:
                diffs.append(f"{pkg}.{ec['name']}: docstring {rc.get('doc')!r} is not the schema's comment {ec['doc']!r}")
            if rc["kind"] != ec["kind"]:
                diffs.append(f"{pkg}.{ec['name']}: is a {rc['kind']}, schema says {ec['kind']}")
                continue
            if ec["kind"] == "enum":
                if rc.get("members_error"):
                    diffs.append(f"{pkg}.{ec['name']}: members unreadable: {rc['members_error']}")
                elif sorted(map(tuple, rc["members"])) != sorted(map(tuple, ec["members"])):
                    diffs.append(f"{pkg}.{ec['name']}: members {rc['members']} != schema {ec['members']}")
                continue
            if rc.get("hints_error"):
                diffs.append(f"{pkg}.{ec['name']}: type hints do not resolve: {rc['hints_error']}")
            rf = {f["name"]: f for f in rc["fields"]}
            if len(rc["fields"]) != len(ec["fields"]):
                diffs.append(f"{pkg}.{ec['name']}: {len(ec['fields'])} fields in the schema, {len(rc['fields'])} in the class")
            for ef in ec["fields"]:
                f = rf.get(ef["name"])
                if f is None:
                    diffs.append(f"{pkg}.{ec['name']}.{ef['name']}: field missing")
                    continue
                for key in ("number", "proto_type", "map_types", "group", "wraps", "optional", "hint"):
                    if f[key] != ef[key] and not rc.get("hints_error"):
                        diffs.append(f"{pkg}.{ec['name']}.{ef['name']}: {key} is {f[key]!r}, schema says {ef[key]!r}")
            if rc.get("smoke") != "ok":
                diffs.append(f"{pkg}.{ec['name']}: class cannot be used: {rc.get('smoke')}")
    return diffs


# ======================================================================================================
# model / spec evaluation of one run inside Coq
# ======================================================================================================
def coq_pairs_for_run(run, conj_expected, k, bridge=False):
    """(preamble, pairs, descr) for lib.coq_compare; definitions are suffixed with k so that many runs share a file"""
    fds = run.fds
    fields, classes, members = name_tables(fds)
    pre = (f"Definition D{k} : descriptor :=\n {g_descriptor(fds)}.\n"
           f"Definition FN{k} := tbl_fn {g_table(sorted(fields.items()))}.\n"
           f"Definition CNM{k} := tbl_fn {g_table(sorted(classes.items()))}.\n"
           f"Definition EN{k} := tbl_fn2 {g_table(sorted(members.items()))}.\n"
           f"Definition M{k} := Eval vm_compute in reflect (compile FN{k} CNM{k} EN{k} D{k}).\n"
           f"Definition S{k} := Eval vm_compute in class_table_of FN{k} CNM{k} EN{k} D{k}.\n")
    pairs, descr = [], []
    pkgs = out_packages(fds)
    pairs.append((f"cv_res_packages M{k}", cl([cb(p.encode()) for p in pkgs])))
    descr.append(("model: output packages", run.label))
    for p in pkgs:
        mod = run.reflect["modules"].get(p, {"import_error": "module missing"})
        if "import_error" in mod:
            pairs.append((f"cv_res_module {s(p)} M{k}", ce("EOther")))
            descr.append(("model class table vs imported package", run.label, p))
            continue
        # classes as a set (definition order inside a module is not part of the property), fields in order
        real = g_list(cv_class(c) for c in mod["classes"])
        pairs.append((f"cbool (res_module_matches {s(p)} M{k} {real})", cbool(True)))
        descr.append(("model class table vs imported package", run.label, p))
        pairs.append((f"cbool (opt_module_matches {s(p)} S{k} {real})", cbool(True)))
        descr.append(("specification class_table_of vs imported package", run.label, p))
    pairs.append((f"cbool (protoc_wf D{k})", cbool(True)))
    descr.append(("protoc_wf on protoc's output", run.label))
    for c, v in conj_expected.items():
        args = {"fields_nodup": f"FN{k} ", "flat_dotted_ok": f"CNM{k} ", "class_nodup": f"CNM{k} ", "members_nodup": f"EN{k} "}.get(c, "")
        pairs.append((f"cbool ({c} {args}D{k})", cbool(v)))
        descr.append((f"names_ok conjunct {c}", run.label))
    dirs = g_list(g_list(s(x) for x in d) for d in (run.dirs or []))
    pairs.append((f"cbool (same_dirs (output_dirs D{k}) {dirs})", cbool(True)))
    descr.append(("output file set", run.label))
    run.bridge = None
    if bridge:
        bpre, bpairs, bdescr, whole, per_class = bridge_pairs(run, k)
        pre += bpre
        pairs += bpairs
        descr += bdescr
        run.bridge = (whole, per_class)
    return pre, pairs, descr


# ======================================================================================================
# stage F: the bridge to the runtime codec model
# ======================================================================================================
NBUILTIN = 11
PT_TAG = {"enum": 0, "bool": 1, "int32": 2, "int64": 3, "uint32": 4, "uint64": 5, "sint32": 6, "sint64": 7, "float": 8,
          "double": 9, "fixed32": 10, "sfixed32": 11, "fixed64": 12, "sfixed64": 13, "string": 14, "bytes": 15,
          "message": 16, "map": 17}
PYTY_TAG = {"int": 0, "float": 1, "bool": 2, "str": 3, "bytes": 4, "datetime": 7, "timedelta": 8}


def py_schema_cv(run):
    """the runtime schema of the REAL generated classes of one run, as the cv literal of Model/C03Bridge.v cv_schema:
    message classes in the order of the schema get indices 11.., map fields get Entry classes after them, enums are
    numbered in the order of the schema, references are resolved through the identity of the class objects (done in the subprocess:
    ["ref", package, class name]), groups are numbered per class by first appearance. Returns None when a module of the
    run did not import or does not have exactly one class per message / enum (other stages report that)."""
    N, _ = naming()
    pkgs = out_packages(run.fds)
    rows = []
    for p in pkgs:
        mod = run.reflect["modules"].get(p)
        if mod is None or "import_error" in mod:
            return None
        by_name = {}
        for c in mod["classes"]:
            by_name.setdefault(c["name"], c)
        # the order in which a module DEFINES its classes is not part of the property: the classes are taken in the
        # order of the schema (enums of the package's files, then its messages, declaration preorder), by name
        en, ms = [], []
        for f in run.fds.file:
            if f.package != p:
                continue
            items = walk_file(f)
            en += [path for kind, path, obj in items if kind == "enum" and len(path) == 1]
            en += [path for kind, path, obj in items if kind == "enum" and len(path) > 1]
            ms += [path for kind, path, obj in items if kind == "msg" and not obj.options.map_entry]
        for path in en + ms:
            c = by_name.get(N.pythonize_class_name(".".join(path)))
            if c is None:
                return None
            rows.append((p, c))
        if len(rows) - sum(1 for q, _ in rows if q != p) != len(mod["classes"]):
            return None
    msgs = [(p, c) for p, c in rows if c["kind"] == "message"]
    enums = [(p, c) for p, c in rows if c["kind"] == "enum"]
    midx, eidx = {}, {}
    for i, (p, c) in enumerate(msgs):
        midx.setdefault((p, c["name"]), NBUILTIN + i)
    for i, (p, c) in enumerate(enums):
        eidx.setdefault((p, c["name"]), i)
    # a name denotes the FIRST class of that name in its module, whatever its kind
    first_kind = {}
    for p, c in rows:
        first_kind.setdefault((p, c["name"]), c["kind"])
    BAD = cl([cz(6), cz(0)])

    def pyty(h):
        if h[0] in PYTY_TAG:
            return cl([cz(PYTY_TAG[h[0]])])
        if h[0] == "ref":
            k = (h[1], h[2])
            if first_kind.get(k) == "message":
                return cl([cz(6), cz(midx[k])])
            if first_kind.get(k) == "enum":
                return cl([cz(5), cz(eidx[k])])
        return BAD

    def hint(h):
        if h[0] == "list":
            return cl([cz(2), pyty(h[1])])
        if h[0] == "dict":
            return cl([cz(3), pyty(h[1]), pyty(h[2])])
        if h[0] == "optional":
            return cl([cz(1), pyty(h[1])])
        return cl([cz(0), pyty(h)])

    def pt(x):
        return cz(PT_TAG.get(str(x), 17))

    classes, entries = [], []
    nentry = NBUILTIN + len(msgs)
    for p, c in msgs:
        groups = []
        for f in c["fields"]:
            if f["group"] is not None and f["group"] not in groups:
                groups.append(f["group"])
        fl = []
        for f in c["fields"]:
            is_map = bool(f["map_types"])
            fl.append(cl([cb(f["name"].encode()), cz(f["number"]), pt(f["proto_type"]),
                          cl([pt(f["map_types"][0]), pt(f["map_types"][1])]) if is_map else CN,
                          CN if f["group"] is None else cz(groups.index(f["group"])),
                          CN if f["wraps"] is None else pt(f["wraps"]),
                          cbool(f["optional"]), hint(f["hint"]), cz(nentry if is_map else 0)]))
            if is_map:
                nentry += 1
                h = f["hint"]
                k, v = (pyty(h[1]), pyty(h[2])) if h[0] == "dict" else (BAD, BAD)
                entries.append(cl([cl([
                    cl([cb(b"key"), cz(1), pt(f["map_types"][0]), CN, CN, CN, cbool(False), cl([cz(0), k]), cz(0)]),
                    cl([cb(b"value"), cz(2), pt(f["map_types"][1]), CN, CN, CN, cbool(False), cl([cz(0), v]), cz(0)])]), cz(0)]))
        classes.append(cl([cl(fl), cz(len(groups))]))
    en = [cl([cl([cb(n.encode()), cz(v)]) for n, v in c["members"]]) for p, c in enums]
    return cl([cl(classes + entries), cl(en)])


WKT_WRAPPER_NAMES = {".google.protobuf." + w for w in WRAPPER_KIND}
WKT_NAMES = WKT_WRAPPER_NAMES | {".google.protobuf.Timestamp", ".google.protobuf.Duration"}
SCALAR_TYPES = {1, 2, 3, 4, 5, 6, 7, 8, 9, 12, 13, 15, 16, 17, 18}
KEY_TYPES = {3, 4, 5, 6, 7, 8, 9, 13, 15, 16, 17, 18}


def py_bridge(fds):
    """independent reading of Model/C03Bridge.v bridge_ok on a FileDescriptorSet: (whole set, [per message class of the
    generated packages in the order of the class table])"""
    syms = {}
    for f in fds.file:
        items = walk_file(f)
        for kind, path, obj in [x for x in items if x[0] == "msg"] + [x for x in items if x[0] == "enum"]:
            syms.setdefault("." + (f.package + "." if f.package else "") + ".".join(path), (kind, f.package, obj))

    def vref_ok(x):
        if x.type in SCALAR_TYPES:
            return True
        if x.type_name in WKT_NAMES:
            return x.type == 11
        sym = syms.get(x.type_name)
        if sym is None:
            return False
        kind, pkg, obj = sym
        if kind == "msg":
            return pkg != "google.protobuf" and not obj.options.map_entry
        return pkg != "google.protobuf"

    def real_oneof(x):
        return x.HasField("oneof_index") and not x.proto3_optional

    def msg_ok(pkg, path, m):
        nums = [x.number for x in m.field]
        ok = len(set(nums)) == len(nums)
        full = "." + (pkg + "." if pkg else "") + ".".join(path)
        for x in m.field:
            if not (1 <= x.number < (1 << 29)):
                ok = False
            entry = None
            if x.type == 11:
                for n in m.nested_type:
                    if n.options.map_entry and full + "." + n.name == x.type_name:
                        entry = n
                        break
            if entry is not None:
                k = next((y for y in entry.field if y.number == 1), None)
                v = next((y for y in entry.field if y.number == 2), None)
                if k is None or v is None or k.type not in KEY_TYPES or not vref_ok(v) or v.type_name in WKT_WRAPPER_NAMES:
                    ok = False
            else:
                rep = x.label == 3
                if not vref_ok(x):
                    ok = False
                if x.type_name in WKT_WRAPPER_NAMES and (rep or x.proto3_optional or real_oneof(x)):
                    ok = False
                if rep and (x.proto3_optional or real_oneof(x)):
                    ok = False
        return ok

    per_class = []
    for p in out_packages(fds):
        for f in fds.file:
            if f.package != p:
                continue
            for kind, path, obj in walk_file(f):
                if kind == "msg" and not obj.options.map_entry:
                    per_class.append(msg_ok(p, path, obj))
    return all(per_class), per_class


def bridge_pairs(run, k):
    """(preamble, pairs, descr) of stage F for one run whose descriptor D{k} / tables M{k}, S{k} are already defined"""
    pre = (f"Definition T{k} : class_table := Eval vm_compute in match S{k} with Some t => t | None => [] end.\n"
           f"Definition SC{k} : schema := Eval vm_compute in schema_of_table T{k}.\n")
    pairs, descr = [], []
    real = py_schema_cv(run)
    if real is not None:
        pairs.append((f"cv_res_schema M{k}", real))
        descr.append(("bridge: schema_of_table (reflect (compile D)) vs the runtime schema of the real generated classes", run.label))
        pairs.append((f"cv_opt_schema S{k}", real))
        descr.append(("bridge: schema_of_table (class_table_of D) vs the runtime schema of the real generated classes", run.label))
    whole, per_class = py_bridge(run.fds)
    pairs.append((f"cbool (bridge_ok D{k})", cbool(whole)))
    descr.append(("bridge: bridge_ok D vs the harness' reading of the descriptor set", run.label))
    # the theorem, instance by instance (premises protoc_wf / names_ok are compared above)
    pairs.append((f"cbool (implb (bridge_ok D{k}) (table_ok T{k} && c01_schema_ok SC{k}))", cbool(True)))
    descr.append(("bridge: bridge_ok D -> table_ok /\\ c01_schema_ok (instance of C03_generated_schema_ok)", run.label))
    bl = "[" + "; ".join("true" if b else "false" for b in per_class) + "]"
    pairs.append((f"cbool (forallb (fun bc => implb (fst bc) (wf_class SC{k} (snd bc))) "
                  f"(combine {bl} (skipn NB (classes SC{k}))))", cbool(True)))
    descr.append(("bridge: msg_bridge_ok of a message -> wf_class of its generated class", run.label))
    # exactness of the side condition (soft: a disagreement is reported as a note, it is no defect of the code)
    pairs.append((f"cbool (c01_schema_ok SC{k})", cbool(whole)))
    descr.append(("bridge-exactness: c01_schema_ok (schema_of_table (class_table_of D)) = bridge_ok D", run.label))
    pairs.append((f"CL (map (fun c => cbool (wf_class SC{k} c)) (firstn {len(per_class)} (skipn NB (classes SC{k}))))",
                  cl([cbool(b) for b in per_class])))
    descr.append(("bridge-exactness: wf_class of every generated message class = msg_bridge_ok of its message", run.label))
    lit = getattr(run, "msggen_literal", None)
    if lit is not None:
        pairs.append((f"cv_schema SC{k}", f"cv_schema {lit}"))
        descr.append(("bridge: schema_of_table (class_table_of D) vs the schema literal msggen prints for the source schema", run.label))
        pairs.append((f"cbool (c01_schema_ok SC{k})", cbool(True)))
        descr.append(("bridge: the msggen schema sent through protoc satisfies c01_schema_ok", run.label))
    run.bridge_real = real is not None
    return pre, pairs, descr, whole, per_class


def msggen_runs(ctx, n_random):
    """msggen schemas (C01's generator: the shapes the runtime model covers) as .proto text, one protoc run each"""
    from .. import msggen
    from . import c01 as C01

    def normalised(base):
        # fields in .proto order (members of a oneof contiguous), groups renumbered by first appearance, as many groups as are used
        classes = []
        for c in base.classes:
            fs = C01.proto_order(c)
            order = []
            for f in fs:
                if f.group is not None and f.group not in order:
                    order.append(f.group)
            classes.append(msggen.Cls(c.name, [msggen.Field(f.name, f.number, f.card, f.elem, key=f.key,
                                                            group=None if f.group is None else order.index(f.group))
                                               for f in fs], len(order)))
        return msggen.Schema(classes, base.enums)

    runs = []
    bases = [msggen.matrix_schema()] + [msggen.random_schema(ctx.rng) for _ in range(n_random)]
    for i, b0 in enumerate(bases):
        sc = normalised(b0)
        b0.dispose()
        pkg = f"vb{i}"
        # the literal: enum member names as the plugin leaves them (proto_text prefixes them with E<i>_)
        r = Run(f"msggen-{i}", {f"vb{i}/schema.proto": C01.proto_text(sc, pkg)})
        r.msggen_literal = sc.coq()
        r.msggen_spec = msggen.schema_spec(sc)
        sc.dispose()
        runs.append(r)
    return runs



# ======================================================================================================
# stage A: function-level correspondence
# ======================================================================================================
def stage_functions(ctx):
    from betterproto.compile.importing import parse_source_type_name
    from betterproto.lib.google.protobuf import DescriptorProto, FieldDescriptorProto, FileDescriptorProto, MessageOptions
    from betterproto.plugin import models as M
    from betterproto.plugin import parser as P
    M.monkey_patch_oneof_index()
    rng = ctx.rng
    pairs, descr = [], []

    def add(m, e, d):
        pairs.append((m, e))
        descr.append(d)

    # ---- parse_source_type_name
    segs = ["a", "b", "foo", "Foo", "Bar", "fooBar", "x1", "A", "google", "protobuf", "v1", "Http", "URL", "lower_case", "_", "M_"]
    names = set()
    for _ in range(400 if not ctx.thorough else 4000):
        n = rng.randint(1, 5)
        t = ".".join(rng.choice(segs) for _ in range(n))
        r = rng.random()
        if r < 0.7:
            t = "." + t
        elif r < 0.75:
            t = ".." + t
        elif r < 0.8:
            t = t + "."
        names.add(t)
    names |= {"", ".", "..", "a", ".a", "A", ".A", "a.b", ".a.b", "a.B", ".a.B", ".A.b", ".a.b.C.d", "a.", ".a.", "a..B", ".a..B"}
    for t in sorted(names):
        pk, nm = parse_source_type_name(t)
        add(f"cv_pair (parse_source_type_name {s(t)})", cl([cb(pk.encode()), cb(nm.encode())]), ("parse_source_type_name", t))
        ctx.seen_nontrivial(("parse", t))
    # ---- field_wraps
    wnames = set()
    xs = ["Double", "Float", "Int32", "Int64", "UInt32", "UInt64", "Bool", "String", "Bytes", "Enum", "List", "Null", "",
          "int32", "INT32", "Message", "Map", "SInt32", "Fixed64", "Foo", "x.Int32", "Value", "Struct"]
    for x in xs:
        for pre_ in [".google.protobuf.", "google.protobuf.", ".google.protobuf", ".foo.", ".google.protobufX.", ""]:
            for suf in ["Value", "Values", "value", "", "ValueValue"]:
                wnames.add(pre_ + x + suf)
    for t in sorted(wnames):
        fake = types.SimpleNamespace(proto_obj=types.SimpleNamespace(type_name=t))
        w = M.FieldCompiler.field_wraps.fget(fake)
        val = None
        if w is not None:
            import betterproto
            val = getattr(betterproto, w.split(".", 1)[1])
        add(f"copt CB (field_wraps {s(t)})", CN if val is None else cb(str(val).encode()), ("field_wraps", t))
        ctx.seen_nontrivial(("wraps", t))
    # ---- field_type over the whole enum
    from betterproto.lib.google.protobuf import FieldDescriptorProtoType
    for t in range(0, 22):
        try:
            fake = types.SimpleNamespace(proto_obj=types.SimpleNamespace(type=t))
            e = cb(M.FieldCompiler.field_type.fget(fake).encode())
        except Exception as ex:  # noqa
            e = ce("EOther")
        add(f"cres_any CB (field_type_str {coq_z(t)})", e, ("field_type", t))
    # ---- is_map / is_oneof on hand-built descriptors
    fnames = ["foo", "f_oo", "Foo", "foo_bar", "fooBar", "FOO", "_foo", "foo_", "a", "entry", "x1", "f__oo"]
    tnames = ["FooEntry", "fooentry", "FOoEntry", "FooBarEntry", "Foo_Entry", "Entry", "AEntry", "Other", "EntryEntry", "X1Entry", ""]
    for _ in range(700 if not ctx.thorough else 8000):
        fn = rng.choice(fnames)
        tn = rng.choice([".p.M.", ".", ".q.", ""]) + rng.choice(tnames)
        typ = rng.choice([11, 11, 11, 14, 5, 9])
        nested = []
        for _ in range(rng.randint(0, 3)):
            nested.append((rng.choice(tnames[:-1]), rng.random() < 0.7))
        label = rng.choice([1, 3])
        has_oi = rng.random() < 0.5
        oi = rng.choice([0, 0, 1, 2])
        p3 = rng.random() < 0.3
        f = FieldDescriptorProto(name=fn, number=1, type=typ, type_name=tn, label=label, proto3_optional=p3)
        if has_oi:
            f.oneof_index = oi
        parent = DescriptorProto(name="M", nested_type=[
            DescriptorProto(name=n, options=MessageOptions(map_entry=me)) for n, me in nested])
        # through the wire, as the plugin receives it
        f = FieldDescriptorProto().parse(bytes(f))
        parent = DescriptorProto().parse(bytes(parent))
        gf = (f"(mkField {s(fn)} 1 {coq_z(label)} {coq_z(typ)} {s(tn)} "
              f"{'(Some ' + coq_z(oi) + ')' if has_oi else 'None'} {'true' if p3 else 'false'})")
        gm = (f"(mkMsg {s('M')} [] {g_list(f'(mkMsg {s(n)} [] [] [] [] {str(me).lower()})' for n, me in nested)} [] [] false)")
        try:
            e1 = cbool(M.is_map(f, parent))
        except Exception:  # noqa
            e1 = ce("EOther")
        add(f"cbool (is_map {gf} {gm})", e1, ("is_map", fn, tn, typ, nested))
        try:
            e2 = cbool(M.is_oneof(f))
        except Exception:  # noqa
            e2 = ce("EOther")
        add(f"cbool (is_oneof {gf})", e2, ("is_oneof", has_oi, oi, p3))
        ctx.seen_nontrivial(("is_map", fn, tn, typ, tuple(nested), has_oi, p3))
    # ---- the descriptors written out in Proofs/PluginWitP.v: the stand-in naming functions used there agree with
    #      the real ones on every name, and the Gallina literal is what protoc emits for the quoted source today
    for nm, text in G.COQ_WITNESS_SOURCES.items():
        try:
            fds = pu.descriptor_set(ctx.work, {nm + ".proto": text}, name="coqwit_" + nm)
        except Exception as e:  # noqa
            ctx.fail("corr", f"protoc rejects the source of Coq witness {nm}: {e!r}", no_input=True,
                     theorem_or_correspondence="witness descriptors of Proofs/PluginWitP.v")
            continue
        fields, classes, members = name_tables(fds)
        for k, v in sorted(fields.items()):
            add(f"CB (w_field_name {s(k)})", cb(v.encode()), ("witness naming: field", nm, k))
        for k, v in sorted(classes.items()):
            add(f"CB (w_class_name {s(k)})", cb(v.encode()), ("witness naming: class", nm, k))
        for k, v in sorted(members.items()):
            a, b_ = k.split("\x00")
            add(f"CB (w_member_name {s(a)} {s(b_)})", cb(v.encode()), ("witness naming: member", nm, k))
        add(f"cv_opt_table (class_table_of w_field_name w_class_name w_member_name {nm})",
            f"cv_opt_table (class_table_of w_field_name w_class_name w_member_name {g_descriptor(fds)})",
            ("witness descriptor literal = protoc's output", nm))
    ctx.count("function_level_cases", len(pairs))
    ctx.cov["evaluations"] += len(pairs)
    bad = lib.coq_compare(ctx, "c03fn", IMPORTS, pairs)
    ctx.cov["disagreements_checked"] += len(pairs)
    for i in bad[:10]:
        ctx.fail("corr", f"model and implementation disagree on {descr[i][0]}", input=list(map(str, descr[i])),
                 expected_model=lib.coq_eval(ctx, IMPORTS, pairs[i][0]), observed_impl=pairs[i][1],
                 theorem_or_correspondence="T2 function-level correspondence Model/Plugin.v <-> betterproto.plugin")
    ctx.sample({"case": list(map(str, descr[3])), "model_expr": pairs[3][0][:200], "impl": pairs[3][1][:200]})


# ======================================================================================================
# stage B-D: pipeline
# ======================================================================================================
def classify(run, hz_classes):
    for t in run.tags:
        return t
    for c in sorted(hz_classes):
        return c
    return None


def shape_of(c):
    if c["kind"] == "enum":
        return ("enum", len(c["members"]), len({v for _, v in c["members"]}), any(v < 0 for _, v in c["members"]))
    return ("message", tuple(sorted((f["proto_type"], json.dumps(f["hint"]), bool(f["group"]), f["optional"], bool(f["wraps"]))
                                    for f in c["fields"])))


def shrink_to_schema(ctx, run, diffs, schemas):
    """a failure inside a batch: re-run the one generated schema it belongs to, alone, so that the replay is small"""
    if not schemas:
        return None
    for d in diffs[:3]:
        m = re.search(r"\bs(\d+)[./\']", d)
        if not m:
            continue
        idx = int(m.group(1))
        cand = [sc for sc in schemas if any(fn.startswith(f"s{idx}/") for fn in sc.files)]
        if not cand:
            continue
        r = Run("shrunk-" + cand[0].label, cand[0].files)
        safe_protoc(ctx, r)
        if r.rc != 0 or r.error or r.reflect is None:
            return r, [f"plugin failed / package not inspectable: {(r.out or r.error or '')[-300:]}"]
        try:
            dd = oracle_compare(r, oracle_expected(r.fds))
        except Exception as e:  # noqa
            dd = [f"oracle raised {e!r}"]
        if dd:
            return r, dd
    return None


def process_run(ctx, run, expect_clean, corr=True, schemas=None):
    """oracle + (optionally) model/spec correspondence for one completed protoc run. Returns list of coq jobs."""
    jobs = []
    if run.rc == "protoc-rejected":
        ctx.count("protoc_rejected_schemas")
        ctx.notes.append(f"{run.label}: protoc rejected the generated schema: {run.out[-200:]}")
        return jobs
    conj, hz = hazards(run.fds)
    cls = classify(run, hz)
    if expect_clean and hz:
        ctx.notes.append(f"{run.label}: main-stream schema carries hazard classes {sorted(hz)}")
    ctx.count("programs")
    for f in run.fds.file:
        if f.package != "google.protobuf":
            ctx.count("proto_files")
    if run.rc != 0:
        ctx.fail("oracle", "the plugin failed on a valid schema", cls=cls, input={"label": run.label, "files": run.files},
                 observed=run.out[-1200:])
        return jobs
    if run.error:
        ctx.fail("oracle", "the generated package could not be inspected", cls=cls,
                 input={"label": run.label, "files": run.files}, observed=run.error)
        return jobs
    try:
        expected = oracle_expected(run.fds)
        diffs = oracle_compare(run, expected)
    except Exception as e:  # noqa
        import traceback
        diffs = [f"oracle raised {e!r}: {traceback.format_exc()[-600:]}"]
    ctx.cov["evaluations"] += 1
    for pkg, mod in run.reflect["modules"].items():
        for c in mod.get("classes", []):
            ctx.count("classes_inspected")
            if c["kind"] == "message":
                ctx.count("fields_inspected", len(c["fields"]))
                for f in c["fields"]:
                    k = ("map" if f["map_types"] else "repeated" if f["hint"][0] == "list" else "optional" if f["optional"]
                         else "oneof" if f["group"] else "singular")
                    ctx.count(f"field:{k}")
                if c["fields"]:
                    ctx.seen_nontrivial(shape_of(c))
            elif len(c["members"]) >= 2:
                ctx.seen_nontrivial(shape_of(c))
    if diffs:
        small = shrink_to_schema(ctx, run, diffs, schemas)
        if small is not None:
            r2, d2 = small
            ctx.fail("oracle", "generated package does not implement the schema: " + d2[0][:300], cls=cls,
                     input={"label": r2.label, "files": r2.files, "found_in": run.label}, all_differences=d2[:20],
                     hazard_classes=sorted(hz), plugin_output=(r2.out or "")[-300:])
        else:
            ctx.fail("oracle", "generated package does not implement the schema: " + diffs[0][:300], cls=cls,
                     input={"label": run.label, "files": run.files}, all_differences=diffs[:20],
                     hazard_classes=sorted(hz), plugin_output=run.out[-300:])
    # stage F (d): the conclusion of C03_generated_roundtrip on the real classes, one sample value per class
    for pkg, mod in run.reflect["modules"].items():
        for c in mod.get("classes", []):
            if c["kind"] != "message" or "rt" not in c:
                continue
            ctx.count("roundtrip_smoke_classes")
            if c["rt"] == "ok":
                if c.get("rt_fields"):
                    ctx.count("roundtrip_smoke_ok_nonempty")
                continue
            # a map whose VALUE type is a wrapper: known finding K34 (the hint says Optional[X], the codec wants a message)
            mwv = any(f["map_types"] and f["hint"][0] == "dict" and f["hint"][2][0] == "optional" for f in c["fields"])
            ctx.count("roundtrip_smoke_failed")
            ctx.count("roundtrip_smoke_failed:" + str("map_wrapper_value" if mwv else cls))
            ctx.fail("oracle", f"a generated class does not round-trip a value: {pkg}.{c['name']}: {c['rt'][:200]}",
                     cls="map_wrapper_value" if mwv else cls,
                     input={"label": run.label, "files": run.files, "class": f"{pkg}.{c['name']}", "fields_set": c.get("rt_fields")},
                     observed=c["rt"][:900], hazard_classes=sorted(hz))
    if corr:
        jobs.append((run, conj))
    return jobs


PY_LEVEL = {"api_shadow", "builtin_shadow_generic", "typing_name_shadow", "invalid_class_name", "keyword_package_segment",
            "builtins_import", "docstring_escape"}


def run_coq_jobs(ctx, jobs):
    """model and specification against the imported packages, for a list of (run, expected conjuncts);
    the runs are spread over lib.JOBS Coq files evaluated in parallel"""
    if not jobs:
        return
    ngroups = min(lib.JOBS, len(jobs))
    # balance by descriptor size
    order = sorted(range(len(jobs)), key=lambda i: -jobs[i][0].fds.ByteSize())
    groups = [[] for _ in range(ngroups)]
    load = [0] * ngroups
    for i in order:
        g = load.index(min(load))
        groups[g].append(i)
        load[g] += jobs[i][0].fds.ByteSize() + 2000

    def one(gi):
        pre_all, pairs_all, descr_all, owner = [], [], [], []
        for k in groups[gi]:
            run, conj = jobs[k]
            # stage F only where the premises of the bridge theorems can hold: no known-finding class, names_ok true
            clean = not run.tags and not hazards(run.fds)[1] and all(conj.values())
            pre, pairs, descr = coq_pairs_for_run(run, conj, k, bridge=clean)
            pre_all.append(pre)
            pairs_all += pairs
            descr_all += descr
            owner += [k] * len(pairs)
        try:
            bad = lib.coq_compare(ctx, f"c03_pipe{gi}", IMPORTS + ".\n" + "".join(pre_all) + "Definition c03_unit := tt",
                                  pairs_all, chunk=1000000)
        except RuntimeError as e:
            return pairs_all, descr_all, owner, None, str(e)
        return pairs_all, descr_all, owner, bad, None

    with ThreadPoolExecutor(max_workers=lib.JOBS) as ex:
        results = list(ex.map(one, range(ngroups)))
    for pairs, descr, owner, bad, err in results:
        ctx.cov["evaluations"] += len(pairs)
        ctx.cov["disagreements_checked"] += len(pairs)
        if err is not None:
            ctx.fail("corr", "the model could not be evaluated on these descriptor sets",
                     input={"labels": sorted({jobs[k][0].label for k in owner})},
                     observed=err[-1500:], no_input=True, theorem_or_correspondence="T2 pipeline correspondence (model evaluation)")
            continue
        per_run = {}
        for i in bad:
            per_run.setdefault(owner[i], []).append(i)
        for k, idxs in per_run.items():
            run = jobs[k][0]
            _, hz = hazards(run.fds)
            known = bool(run.tags or hz)
            # classes whose effect is Python name binding / syntax, which the model does not describe
            py_level = bool((set(run.tags) | hz) & PY_LEVEL)
            for i in idxs[:6]:
                what = descr[i][0]
                if what.startswith("bridge-exactness"):
                    ctx.count("bridge_exactness_disagreements")
                    ctx.notes.append(f"{run.label}: {what}: the side condition is not exact here (model {pairs[i][0][:80]} != {pairs[i][1][:80]})")
                    continue
                if what.startswith("bridge:"):
                    ctx.fail("corr", f"disagreement: {what}", input={"label": run.label, "case": list(descr[i]), "files": run.files},
                             expected_model=pairs[i][0][:300], observed_impl=pairs[i][1][:3000],
                             theorem_or_correspondence="T2 Model/C03Bridge.v schema_of_table / bridge_ok <-> real generated classes "
                                                       "and descriptor (C03_generated_schema_ok)")
                    continue
                spec_side = what.startswith("specification")
                # neither the specification nor names_ok is expected to describe a package of a known-finding class
                if known and (spec_side or what.startswith("names_ok") or what.startswith("model: output")):
                    continue
                pkg = descr[i][2] if len(descr[i]) > 2 else None
                if py_level and pkg is not None:
                    continue
                if known and pkg is not None and "import_error" in run.reflect["modules"].get(pkg, {}):
                    continue          # Python-level breakage of a known class: nothing to compare the model with
                shown = pairs[i][0]
                m_ = re.match(r"cbool \((res|opt)_module_matches (\[.*?\]) ([MS]\d+) ", shown)
                if m_:
                    shown = f"cv_{m_.group(1)}_module {m_.group(2)} {m_.group(3)}"
                ctx.fail("corr", f"disagreement: {what}", input={"label": run.label, "case": list(descr[i]), "files": run.files},
                         expected_model=shown, observed_impl=json.dumps(run.reflect["modules"].get(pkg))[:3000] if pkg is not None else pairs[i][1][:3000],
                         theorem_or_correspondence=("T3 Spec/Descriptor.v class_table_of <-> generated package" if spec_side
                                                    else "T2 Model/Plugin.v <-> plugin output"))


def corpus_runs(ctx):
    """tests/inputs of the repository (upstream xfails skipped)"""
    import importlib.util
    d = os.path.join(lib.REPO, "tests", "inputs")
    spec = importlib.util.spec_from_file_location("c03_inputs_config", os.path.join(d, "config.py"))
    cfg = importlib.util.module_from_spec(spec)
    spec.loader.exec_module(cfg)
    cases = []
    for name in sorted(os.listdir(d)):
        sub = os.path.join(d, name)
        if not os.path.isdir(sub) or name in cfg.xfail:
            continue
        files = {}
        for fn in sorted(os.listdir(sub)):
            if fn.endswith(".proto"):
                files[fn] = open(os.path.join(sub, fn)).read()
        if files:
            cases.append((name, files))
    # several test directories share one protoc call when neither a file name nor a package name clashes
    groups = []
    for name, files in cases:
        pk = set()
        for text in files.values():
            m = re.search(r"^\s*package\s+([\w.]+)\s*;", text, re.M)
            pk.add(m.group(1) if m else "")
        for g in groups:
            if not (g["names"] & set(files)) and not (g["pkgs"] & pk) and len(g["dirs"]) < 6:
                g["names"] |= set(files); g["pkgs"] |= pk; g["dirs"].append(name); g["files"].update(files)
                break
        else:
            groups.append({"names": set(files), "pkgs": set(pk), "dirs": [name], "files": dict(files)})
    runs = [Run("corpus-" + "+".join(g["dirs"])[:60] + f"-{i}", g["files"]) for i, g in enumerate(groups)]
    for r, g in zip(runs, groups):
        r.dirs_covered = g["dirs"]
    return runs, sorted(cfg.xfail), len(cases)


def run(ctx):
    import betterproto
    rng = ctx.rng
    # ---------------------------------------------------------------- A
    import time
    t0 = time.time()
    stage_bundled(ctx)          # before stage A: monkey_patch_oneof_index() changes the live metadata it reads
    t1 = time.time()
    coq_ok = ctx.build_ok is not False
    if coq_ok:
        try:
            stage_functions(ctx)
        except RuntimeError as e:
            coq_ok = False
            ctx.fail("corr", "the model cannot be evaluated against this tree", observed=str(e)[-1500:], no_input=True,
                     theorem_or_correspondence="T2 function-level correspondence (model evaluation failed)")
    else:
        ctx.notes.append("Coq build failed: the model correspondence is skipped, the oracle still runs")
    t2 = time.time()
    # ---------------------------------------------------------------- B: generated schemas, batched
    gen = G.Gen(rng, api_names(), depth=3 if not ctx.thorough else 5)
    schemas = G.systematic(0)
    nrandom = 24 if not ctx.thorough else 600
    for i in range(nrandom):
        schemas.append(gen.schema(len(schemas)))
    batch_size = 8 if not ctx.thorough else 12
    batches = []
    for i in range(0, len(schemas), batch_size):
        files = {}
        for sc in schemas[i:i + batch_size]:
            files.update(sc.files)
        batches.append(Run(f"batch{i // batch_size}", files))
    corpus, xfails, ncorpus = corpus_runs(ctx)
    bridge_runs = msggen_runs(ctx, 5 if not ctx.thorough else 40)      # stage F (c)
    wit = [Run(w.label, w.files, tags=w.tags) for w in G.witnesses()]
    reg = [Run(w.label, w.files, tags=w.tags) for w in G.regressions()]
    # saved failing inputs run first
    saved = []
    cdir = os.path.join(lib.VERIF, "corpus")
    for fn in sorted(os.listdir(cdir)) if os.path.isdir(cdir) else []:
        if fn.startswith("C03") and fn.endswith(".json"):
            try:
                o = json.load(open(os.path.join(cdir, fn)))
                saved.append(Run("saved-" + fn[:-5], o["files"], tags=o.get("tags", [])))
            except Exception as e:  # noqa
                ctx.notes.append(f"corpus file {fn} unreadable: {e!r}")
    all_runs = saved + batches + corpus + wit + reg + bridge_runs
    with ThreadPoolExecutor(max_workers=lib.JOBS) as ex:
        list(ex.map(lambda r: safe_protoc(ctx, r), all_runs))
    # a main-stream batch in which protoc rejected one file or the plugin crashed: retry schema by schema
    retry = []
    for b in list(batches):
        if b.rc != 0:
            batches.remove(b)
            idx = int(b.label[5:])
            for sc in schemas[idx * batch_size:(idx + 1) * batch_size]:
                retry.append(Run(sc.label, sc.files))
    if retry:
        ctx.count("batches_split", 1)
        with ThreadPoolExecutor(max_workers=lib.JOBS) as ex:
            list(ex.map(lambda r: safe_protoc(ctx, r), retry))
    t3 = time.time()
    jobs = []
    for r in saved:
        jobs += process_run(ctx, r, expect_clean=False)
    for r in batches + retry:
        jobs += process_run(ctx, r, expect_clean=True, schemas=schemas)
    ctx.count("generated_schemas", len(schemas))
    for r in corpus:
        jobs += process_run(ctx, r, expect_clean=False)
    ctx.count("corpus_dirs", ncorpus)
    ctx.count("corpus_protoc_runs", len(corpus))
    ctx.cov["corpus_xfail_skipped"] = xfails
    for r in wit + reg:
        jobs += process_run(ctx, r, expect_clean=False, corr=(r.rc == 0 and r.reflect is not None))
    for r in bridge_runs:
        if r.rc == "protoc-rejected" or r.rc != 0 or r.reflect is None:
            ctx.fail("corr", "a msggen schema (the shapes the runtime model covers) does not pass protoc + plugin + import",
                     input={"label": r.label, "files": r.files, "schema": r.msggen_spec}, observed=(r.out or r.error or "")[-900:],
                     no_input=True, theorem_or_correspondence="stage F (c): msggen schema -> .proto -> plugin")
            continue
        jobs += process_run(ctx, r, expect_clean=True)
    ctx.count("bridge_msggen_schemas", len(bridge_runs))
    ctx.count("witness_schemas", len(wit))
    ctx.count("regression_schemas", len(reg))
    t4 = time.time()
    if coq_ok:
        run_coq_jobs(ctx, jobs)
    t5 = time.time()
    for r, _ in jobs:
        b = getattr(r, "bridge", None)
        if b is not None:
            ctx.count("bridge_runs_compared")
            if getattr(r, "bridge_real", False):
                ctx.count("bridge_real_class_schemas_compared")
            if getattr(r, "msggen_literal", None) is not None:
                ctx.count("bridge_msggen_literals_compared")
            ctx.count("bridge_ok_runs" if b[0] else "bridge_not_ok_runs")
            ctx.count("bridge_classes", len(b[1]))
            ctx.count("bridge_ok_classes", sum(1 for x in b[1] if x))
    ctx.cov["stage_seconds"] = {"bundled": round(t1 - t0, 1), "functions": round(t2 - t1, 1), "protoc+plugin+import": round(t3 - t2, 1),
                                "oracle": round(t4 - t3, 1), "coq model+spec": round(t5 - t4, 1)}
    # samples
    for r in (batches + retry)[:2]:
        if r.reflect:
            for pkg, mod in list(r.reflect["modules"].items())[:1]:
                for c in mod.get("classes", [])[:2]:
                    ctx.sample({"run": r.label, "package": pkg, "class": c["name"], "kind": c["kind"],
                                "fields": [(f["name"], f["number"], f["proto_type"], f["hint"]) for f in c.get("fields", [])[:4]],
                                "members": c.get("members", [])[:4]})
    for r in wit[:3]:
        ctx.sample({"run": r.label, "tags": r.tags, "rc": r.rc})


def safe_protoc(ctx, r):
    try:
        run_protoc(ctx, r)
    except Exception as e:  # noqa
        r.rc = r.rc if r.rc is not None else -1
        r.error = f"harness: {e!r}"
        r.out = r.out or repr(e)


# ======================================================================================================
# stage E: bundled descriptor libraries (oracle side of C03_bundled_agree)
# ======================================================================================================
def stage_bundled(ctx):
    from .. import gen_c03 as T
    from google.protobuf import (any_pb2, api_pb2, descriptor_pb2, duration_pb2, empty_pb2, field_mask_pb2,
                                 source_context_pb2, struct_pb2, timestamp_pb2, type_pb2, wrappers_pb2)
    from google.protobuf.compiler import plugin_pb2
    ref = T.reference_rows([m.DESCRIPTOR for m in (any_pb2, api_pb2, descriptor_pb2, duration_pb2, empty_pb2, field_mask_pb2,
                                                   source_context_pb2, struct_pb2, timestamp_pb2, type_pb2, wrappers_pb2)])
    refc = T.reference_rows([plugin_pb2.DESCRIPTOR])
    n = 0
    for lib_name, modname, (rm, re_) in [("std", "betterproto.lib.std.google.protobuf", ref),
                                         ("std.compiler", "betterproto.lib.std.google.protobuf.compiler", refc),
                                         ("pydantic", "betterproto.lib.pydantic.google.protobuf", ref),
                                         ("pydantic.compiler", "betterproto.lib.pydantic.google.protobuf.compiler", refc)]:
        try:
            bm, be = T.bundled_module_rows(modname)
        except Exception as e:  # noqa
            ctx.fail("oracle", f"bundled library {modname} cannot be read: {e!r}", input=modname)
            continue
        for k, rows in bm.items():
            if k not in rm:
                continue
            by_num = {r[1]: r for r in rm[k]}
            for r in rows:
                if r[1] in by_num:
                    n += 1
                    q = by_num[r[1]]
                    ok = (r[0] == q[0] or r[0] == q[0] + "_") and r[2:] == q[2:]
                    if not ok:
                        ctx.fail("oracle", f"bundled {lib_name}.{k} field number {r[1]} is {r}, descriptor.proto/plugin.proto says {q}",
                                 input=[lib_name, k, r[1]])
        for k, mem in be.items():
            if k not in re_:
                continue
            by_num = {}
            for nm, v in re_[k]:
                by_num.setdefault(v, []).append(nm)
            for nm, v in mem:
                if v in by_num:
                    n += 1
                    pass
                elif by_num:
                    # a bundled member whose number the reference enum does not have at all
                    ctx.notes.append(f"bundled {lib_name}.{k}.{nm} = {v} has no counterpart in the reference enum")
    ctx.count("bundled_shared_numbers", n)
    ctx.cov["evaluations"] += n
    if T.NOT_IMPORTABLE:
        ctx.notes.append("bundled modules that cannot be imported in this environment (rows read from their source text): "
                         + "; ".join(f"{m} ({w[:120]})" for m, w in dict(T.NOT_IMPORTABLE).items()))


def finish(ctx):
    return lib.finish(
        ctx, LEVEL,
        "Coq theorems over a Gallina mirror of the plugin's descriptor -> class-table function and an independent specification of "
        "what a descriptor means, + translation validation: every generated schema goes through protoc and the real plugin, the "
        "imported package is compared with the model (vm_compute), the specification and google.protobuf's reading of the descriptor; "
        "bridge to the runtime codec model: proved c01_schema_ok of schema_of_table(class table) under bridge_ok, schema_of_table compared with the "
        "runtime schema of the real classes and with msggen's literal, one sample value per generated class round-tripped for real",
        ASSUMPTIONS, TRUSTED, RULE,
        extra_cov={"exhaustive": False,
                   "programs": ctx.dist.get("programs", 0),
                   "samples": ctx.cov["samples"],
                   "disagreements_checked": ctx.cov["disagreements_checked"],
                   "explanation": "theorems quantify over all protoc_wf descriptors (any number of messages, any nesting depth); "
                                  "the tie is sampled (grammar-based generator + tests/inputs corpus)"})


def replay(ctx, obj):
    """re-run one recorded input: ./check C03 --replay replays/C03-*.json"""
    inp = obj.get("input") or {}
    files = inp.get("files") if isinstance(inp, dict) else None
    if not files:
        print(json.dumps(obj, indent=1)[:3000])
        return 0
    r = Run("replay", files)
    safe_protoc(ctx, r)
    print("protoc/plugin rc:", r.rc)
    print(r.out[-1500:])
    if r.fds is not None and r.reflect is not None:
        for d in oracle_compare(r, oracle_expected(r.fds)):
            print("DIFF:", d)
        for pkg, mod in r.reflect["modules"].items():
            for c in mod.get("classes", []):
                if c["kind"] == "message" and c.get("rt", "ok") != "ok":
                    print(f"ROUND-TRIP: {pkg}.{c['name']} (fields set: {c.get('rt_fields')}): {c['rt'][:600]}")
        print("bridge_ok (harness reading):", py_bridge(r.fds))
        print("hazards:", hazards(r.fds))
    ctx.cleanup()
    return 0
