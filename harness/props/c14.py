"""C14 — observers are pure; copy, deepcopy and pickle are faithful and independent.

Histories on real Message objects:  value-producing prefix (constructor + assignments / decoded from bytes with
unknown fields / from_dict) ; observers* ; copy | deepcopy | pickle ; mutation of the copy ; (again, on a copy).

T2 (correspondence, vm_compute inside Coq): the raw state of the real object is snapshotted before and after
   every step; the model's `observe` / `copy` / `deepcopy` / `pickle_rt` is evaluated on the snapshot taken before
   and compared with the snapshot taken after; `mat_obj before after` (the relation all C14 theorems are stated
   over) is evaluated on every observer step, raising ones included; `presence_at` and `is_set` are compared with
   serialized_on_wire / which_one_of / `is None` / is_set of the real object.
Oracle (the property itself, on the implementation): bytes, ==  (both operand orders, against several probes) and
   the presence report are measured on replicas of the raw state (so that measuring disturbs nothing) before
   and after every observer and must not change; every copy must be equal to the original, encode to the same
   bytes, report the same presence and hold the same unknown fields; the original's raw state must not change when
   the deep / unpickled copy is mutated through every path.
"""
import copy
import dataclasses
import io
import json
import os
import pickle

from .. import lib, msggen, histgen
from ..lib import cz, cb, cl, ce, CN, cbool, coq_bytes
from ..msggen import Cls, Elem, Field, Schema, scalar

IMPORTS = ("Model.Types Model.Object Model.Eq Model.Encode Model.Decode Model.Canon Model.WellFormed Model.History "
           "Model.C14Ops Model.C14Pickle Model.C14UDef gen.Tables")
EXTRA_TARGETS = ["Model/Canon.vo", "Model/C14Ops.vo", "Model/C14Pickle.vo", "Model/C14UDef.vo", "Model/C14Heap.vo", "Model/C14HeapCv.vo"]
CORPUS = os.path.join(lib.VERIF, "corpus", "C14-regress.json")

TRUSTED = [
    "Coq 8.16.1 kernel and vm_compute (no native_compute); full .vo build via coq_makefile",
    "axioms: none (every theorem of Properties/C14.v is 'Closed under the global context')",
    "hand-written model coq/Model/{Object,Eq,Float,Encode,Decode,History,C14Ops}.v tied to /repo by executable correspondence "
    "(this harness): observe / copy / deepcopy / pickle_rt / presence_at / is_set are evaluated by vm_compute on snapshots "
    "of the raw state of real Message objects and compared with the state / report of the same objects after the real operation",
    "Python side: harness/msggen.py + harness/histgen.py (schema, value and history generators, snapshot of raw attributes through "
    "object.__getattribute__), raw_clone (replica of the raw state used to measure bytes / == / presence without touching the object)",
    "translator harness/gen_tables.py (type tables reflected into coq/gen/Tables.v)",
    "object identity / aliasing: the value model is tree-valued; independence of deep and unpickled copies is proved over the heap "
    "model coq/Model/C14Heap.v (cells for Message / list / dict, h_copy / h_deepcopy with copy.deepcopy's per-field memo / h_pickle_rt, "
    "mutations through a root with the lazy-default write-back), tied to the code by the aliasing stage: the sharing observed with id() "
    "between original and copy and inside the copy, the copy's state, and both states after mutations through the copy are compared "
    "with the model (vm_compute); pickling's own write-back into the original (bytes(m)) is compared up to the value-level `touch`",
    "pickle: C14_pickle (equality in both operand orders, byte identity, unknown bytes of the top-level message, presence at every "
    "path) is proved from the C01 round trip (Properties/C01.v) and C08's unknown-field theorems under the decidable hypotheses "
    "pickle_pre / pickle_pre_u (unknown bytes at any depth, Model/C14UDef.v) / sow_ok / flags_ok (Model/C14Pickle.v), which the check "
    "evaluates on every generated pickle case (counts in the "
    "input distribution: pickle_theorem_hypotheses:*); CPython's pickle calling __reduce__ and applying FromString is trusted",
]
ASSUMPTIONS = [
    "Python int is Z; str is its UTF-8 bytes (no lone surrogates); float is its binary64 pattern; aware datetimes are microseconds since the epoch",
    "in the value model object identity is not represented (a shallow copy sharing its children is the same tree); identity is the subject "
    "of the heap model (Model/C14Heap.v): dict keys are compared by type and value (True and 1 are different keys there), datetime / "
    "timedelta / str / bytes / numbers are immutable scalars without identity",
    "to_dict / to_json / to_pydict are modelled by their effect on the state only (their output is C04/C05's subject)",
    "an observer that raises leaves a state related to the previous one by `mat` (checked on the implementation, stated for `mat` in Coq); "
    "`observe` is the state after a normal return",
]
RULE = ("histories over the systematic schema (every kind x cardinality), a regression schema (field-less child, message-valued maps, "
        "oneof with a message member, recursive child) and random schemas; prefix in {constructor+assignments (+unknown via parse), "
        "decoded from bytes with unknown fields, from_dict}; 0-7 observers from {getattr(path), bytes, len, dump(delimited or not), ==, "
        "reflected ==, bool, repr, to_dict, to_json, to_pydict (include_default_values both ways)}; then copy, deepcopy and pickle of the "
        "observed object, mutation of each copy, and a second round on one of the copies. non-trivial = at least one step changed the raw "
        "state or the object encodes to >= 1 byte; distinct = distinct (class, observer kinds, encoded bytes)")


# --------------------------------------------------------------------------------------------------
# replicas and measurements (harness-side, independent of the code under test)
# --------------------------------------------------------------------------------------------------
def raw_clone(v):
    import betterproto as bp
    if isinstance(v, bp.Message):
        new = object.__new__(type(v))
        d = object.__getattribute__(new, "__dict__")
        for k, x in object.__getattribute__(v, "__dict__").items():
            d[k] = dict(x) if k == "_group_current" else raw_clone(x)
        return new
    if isinstance(v, list):
        return [raw_clone(x) for x in v]
    if isinstance(v, dict):
        return {k: raw_clone(x) for k, x in v.items()}
    return v


def presence_api(m, depth, mask_flag=False, mask_map_values=False):
    """what the public API reports as present, recursively (on a replica: reading materialises defaults).
    mask_map_values: the flag of a message held directly as a map value is left out (an empty map value is not
    put on the wire, so the wire format cannot transport that flag: C01/C06's subject, used for pickle only)"""
    import betterproto as bp
    gc = object.__getattribute__(m, "_group_current")
    which = tuple(sorted((g, bp.which_one_of(m, g)[0]) for g in gc))
    fields = []
    for f in dataclasses.fields(m):
        try:
            v = getattr(m, f.name)
        except AttributeError:
            fields.append("E")
            continue
        if v is None:
            fields.append("N")
        elif isinstance(v, bp.Message):
            fields.append(presence_api(v, depth - 1, False, mask_map_values) if depth > 0 else "M")
        elif isinstance(v, list):
            fields.append(tuple(presence_api(x, depth - 1, False, mask_map_values) if isinstance(x, bp.Message) and depth > 0 else "V"
                                for x in v))
        elif isinstance(v, dict):
            fields.append(tuple(presence_api(x, depth - 1, mask_map_values, mask_map_values) if isinstance(x, bp.Message) and depth > 0 else "V"
                                for x in v.values()))
        else:
            fields.append("V")
    return (None if mask_flag else bool(bp.serialized_on_wire(m)), which, tuple(fields))


def is_set_tuple(m):
    return tuple(bool(m.is_set(f.name)) for f in dataclasses.fields(m))


def safe(f):
    try:
        return ("ok", f())
    except RecursionError:
        raise
    except Exception as e:  # noqa
        return ("exc", type(e).__name__)


def measure(m, probes, depth):
    """bytes, equality against the probes (both operand orders) and presence, none of which touches m"""
    b = safe(lambda: bytes(raw_clone(m)))
    eqs = tuple(safe(lambda x=x: (raw_clone(m) == raw_clone(x), raw_clone(x) == raw_clone(m))) for x in probes)
    pres = safe(lambda: presence_api(raw_clone(m), depth))
    unk = bytes(object.__getattribute__(m, "_unknown_fields"))
    return {"bytes": b, "eq": eqs, "presence": pres, "unknown": unk}


def diff_measure(a, b, keys=("bytes", "eq", "presence", "unknown")):
    return [k for k in keys if a[k] != b[k]]


# --------------------------------------------------------------------------------------------------
# schemas
# --------------------------------------------------------------------------------------------------
def regress_schema():
    inner = Cls("Inner", [Field("x", 1, "plain", scalar("int32")), Field("s", 2, "plain", scalar("string")),
                          Field("rec", 3, "plain", Elem("msg", "message", 0)),
                          Field("o", 4, "optional", scalar("int32"))])
    empty = Cls("Empty", [])
    holder = Cls("Holder", [
        Field("e", 1, "plain", Elem("msg", "message", 1)),
        Field("inner", 2, "plain", Elem("msg", "message", 0)),
        Field("mm", 3, "map", Elem("msg", "message", 0), key=scalar("string")),
        Field("a", 4, "plain", scalar("int32"), group=0),
        Field("b", 5, "plain", scalar("string"), group=0),
        Field("c", 6, "plain", Elem("msg", "message", 0), group=0),
        Field("r", 7, "repeated", Elem("msg", "message", 0)),
        Field("n", 8, "plain", scalar("int32")),
        Field("oi", 9, "optional", Elem("msg", "message", 0)),
        Field("w", 10, "wrapper", scalar("int32")),
        Field("ts", 11, "plain", Elem("datetime", "message")),
        Field("me", 12, "map", Elem("msg", "message", 1), key=scalar("int32")),
        Field("f", 13, "plain", scalar("double")),
        Field("rf", 14, "repeated", scalar("double")),
    ], ngroups=1)
    return Schema([inner, empty, holder], [])


def recursive_classes(schema):
    """classes from which a chain of singular plain message fields comes back to a class on the chain:
    to_dict(include_default_values=True) does not terminate there (RecursionError)"""
    n = len(schema.classes)
    edges = {i: {f.elem.ref for f in c.fields if f.card == "plain" and f.elem.kind == "msg" and f.group is None}
             for i, c in enumerate(schema.classes)}
    # also through repeated / map / optional / oneof members when a value exists: handled at run time (RecursionError caught)
    bad = set()
    for s in range(n):
        seen, stack = set(), [s]
        while stack:
            x = stack.pop()
            for y in edges[x]:
                if y == s:
                    bad.add(s)
                if y not in seen:
                    seen.add(y)
                    stack.append(y)
    # anything that reaches a bad class is bad too
    changed = True
    while changed:
        changed = False
        for i in range(n):
            if i not in bad and edges[i] & bad:
                bad.add(i)
                changed = True
    return bad


# --------------------------------------------------------------------------------------------------
# observers
# --------------------------------------------------------------------------------------------------
OBS_KINDS = ["get", "get", "get", "bytes", "len", "dump", "eq", "eqr", "bool", "repr",
             "to_dict", "to_dict", "to_json", "to_pydict", "to_pydict"]


def gen_observer(schema, ci, rng, m):
    k = rng.choice(OBS_KINDS)
    if k == "get":
        op = histgen.gen_op(schema, ci, rng, kinds=["get"])
        if op["k"] != "get":
            return {"k": "bool"}
        return op
    if k == "dump":
        return {"k": "dump", "delimit": rng.random() < 0.5}
    if k in ("eq", "eqr"):
        r = rng.random()
        if r < 0.4:
            other = raw_clone(m)
        elif r < 0.6:
            other = schema.classes[ci].py()
        else:
            other = msggen.gen_message(schema, ci, rng)
        return {"k": k, "other": other}
    if k in ("to_dict", "to_json", "to_pydict"):
        return {"k": k, "idv": rng.random() < 0.4}
    return {"k": k}


def apply_observer(schema, ci, m, op):
    import betterproto as bp
    k = op["k"]
    if k in ("get", "bytes", "len", "dump", "bool"):
        return histgen.apply_op(schema, ci, m, op)[1]
    if k == "eq":
        return m == op["other"]
    if k == "eqr":
        return op["other"] == m
    if k == "repr":
        return repr(m)
    if k == "to_dict":
        return m.to_dict(include_default_values=op["idv"])
    if k == "to_json":
        return m.to_json(include_default_values=op["idv"])
    if k == "to_pydict":
        return m.to_pydict(include_default_values=op["idv"])
    raise ValueError(k)


FUEL = 40


def coq_observer(schema, op):
    k = op["k"]
    if k == "get":
        return f"(BGet {histgen.nat_list(op['path'])} {op['i']}%nat)"
    if k == "dump":
        return f"(BDump {'true' if op['delimit'] else 'false'})"
    if k == "eq":
        return f"(BEq {msggen.obj_literal(schema, op['other'])})"
    if k == "eqr":
        return f"(BEqR {msggen.obj_literal(schema, op['other'])})"
    if k in ("to_dict", "to_json", "to_pydict"):
        con = {"to_dict": "BToDict", "to_json": "BToJson", "to_pydict": "BToPydict"}[k]
        return f"({con} {FUEL}%nat {'true' if op['idv'] else 'false'})"
    return {"bytes": "BBytes", "len": "BLen", "bool": "BBool", "repr": "BRepr"}[k]


def safe_repr(m, n=1500):
    """repr of a replica: repr() is one of the observers under test, it must not touch the object itself"""
    try:
        return repr(raw_clone(m))[:n]
    except RecursionError:
        return "<repr: RecursionError>"
    except Exception as e:  # noqa
        return f"<repr raised {type(e).__name__}>"


def describe_op(op):
    d = {k: v for k, v in op.items() if k != "other"}
    if "other" in op:
        d["other"] = safe_repr(op["other"], 300)
    return d


# --------------------------------------------------------------------------------------------------
# presence correspondence: a path through the real object and what the API reports there
# --------------------------------------------------------------------------------------------------
def gen_presence_path(schema, ci, m, rng):
    """random navigation (on a replica) through message-valued attributes; returns (coq path literal, report or None)"""
    import betterproto as bp
    cur, cidx, steps = raw_clone(m), ci, []
    for _ in range(rng.choice([0, 0, 1, 1, 2, 3])):
        c = schema.classes[cidx]
        cands = [(i, f) for i, f in enumerate(c.fields) if f.elem.kind == "msg"]
        if not cands:
            break
        i, f = rng.choice(cands)
        try:
            v = getattr(cur, f.name)
        except AttributeError:
            steps.append(f"(SField {i}%nat)")
            return steps, None
        if f.card in ("repeated", "map") and not isinstance(v, (list, dict)):
            return steps + [f"(SField {i}%nat)"], None
        if f.card == "repeated":
            k = rng.randrange(len(v) + 1)
            steps.append(f"(SItem {i}%nat {k}%nat)")
            if k >= len(v):
                return steps, None
            cur = v[k]
        elif f.card == "map":
            k = rng.randrange(len(v) + 1)
            steps.append(f"(SValue {i}%nat {k}%nat)")
            if k >= len(v):
                return steps, None
            cur = list(v.values())[k]
        else:
            steps.append(f"(SField {i}%nat)")
            if v is None:
                return steps, None
            cur = v
        cidx = f.elem.ref
    c = schema.classes[cidx]
    names = [f.name for f in c.fields]
    gc = object.__getattribute__(cur, "_group_current")
    which = []
    for g in range(c.ngroups):
        sel = bp.which_one_of(cur, f"g{g}")[0]
        which.append(CN if not sel else cz(names.index(sel)))
    nn = []
    for f in c.fields:
        try:
            v = getattr(cur, f.name)
            nn.append(cz(1 if v is None else 2))
        except AttributeError:
            nn.append(cz(0))
    return steps, cl([cbool(bp.serialized_on_wire(cur)), cl(which), cl(nn)])


# --------------------------------------------------------------------------------------------------
# mutation of a copy through every path (independence, harness-only)
# --------------------------------------------------------------------------------------------------
def scramble(schema, ci, r, rng, deep=True, depth=0):
    import betterproto as bp
    c = schema.classes[ci]
    n = 0
    if (deep or depth == 0) and rng.random() < 0.6:
        # more unknown records decoded INTO the copy: its _unknown_fields grows, the original's may not (seeded change C08-4:
        # a mutable buffer shared by a message and its copies); for a shallow copy only the top-level object is its own
        try:
            r.parse(msggen.gen_unknown(rng, {f.number for f in c.fields}, n=1))
            n += 1
        except Exception:  # noqa
            pass
    for f in c.fields:
        raw = object.__getattribute__(r, f.name)
        if deep and depth < 4:
            if isinstance(raw, list):
                for x in raw:
                    if isinstance(x, bp.Message):
                        n += scramble(schema, f.elem.ref, x, rng, deep, depth + 1)
                try:
                    if raw and rng.random() < 0.3:
                        raw.pop()
                    else:
                        raw.append(msggen.gen_elem(schema, f.elem, rng, 3))
                    n += 1
                except Exception:  # noqa
                    pass
            elif isinstance(raw, dict):
                for x in list(raw.values()):
                    if isinstance(x, bp.Message):
                        n += scramble(schema, f.elem.ref, x, rng, deep, depth + 1)
                try:
                    if raw and rng.random() < 0.3:
                        raw.pop(next(iter(raw)))
                    else:
                        raw[msggen.gen_scalar(f.key.pt, rng, True)] = msggen.gen_elem(schema, f.elem, rng, 3)
                    n += 1
                except Exception:  # noqa
                    pass
            elif isinstance(raw, bp.Message):
                n += scramble(schema, f.elem.ref, raw, rng, deep, depth + 1)
        if rng.random() < 0.6:
            try:
                setattr(r, f.name, msggen.gen_field_value(schema, f, rng, 3))
                n += 1
            except Exception:  # noqa
                pass
    return n


# --------------------------------------------------------------------------------------------------
class Run:
    def __init__(self, ctx):
        self.ctx = ctx
        self.schemas = []
        self.pairs = []
        self.meta = []
        self.probes = []      # (expr : cv of a boolean, label): how often the hypotheses of the pickle theorems hold

    def add_schema(self, s):
        self.schemas.append(s)
        return len(self.schemas) - 1

    def case(self, model, expected, info):
        self.pairs.append((model, expected))
        self.meta.append(info)

    def fail(self, kind, what, cls, info, **kw):
        self.ctx.fail(kind, what, cls=cls, input=info, **kw)


def lit(schema, m):
    return msggen.obj_literal(schema, m)


def history_info(s, ci, start_repr, trail):
    return {"schema": s.describe(), "class": s.classes[ci].name, "start": start_repr, "steps": list(trail)}


def nan_in_container(m):
    import betterproto as bp
    for f in dataclasses.fields(m):
        v = object.__getattribute__(m, f.name)
        if isinstance(v, list):
            vals = v
        elif isinstance(v, dict):
            vals = list(v.values())
        else:
            vals = [v] if isinstance(v, bp.Message) else []
        for x in vals:
            if isinstance(x, float) and x != x:
                return True
            if isinstance(x, bp.Message) and nan_in_container(x):
                return True
    return False


def roundtrip_preconditions(schema, ci, m):
    """side conditions of the C01 round trip (premise of C14_pickle), evaluated on the raw state: every unselected oneof
    member is PLACEHOLDER, no NaN inside a container, a nested message that will be emitted has its flag up"""
    import betterproto as bp
    c = schema.classes[ci]
    gc = object.__getattribute__(m, "_group_current")
    if nan_in_container(m):
        return "nan_in_container"
    for f in c.fields:
        raw = object.__getattribute__(m, f.name)
        if f.group is not None and gc.get(f"g{f.group}") != f.name and raw is not bp.PLACEHOLDER:
            return "oneof_unclean"
        if f.elem.kind == "scalar" and f.elem.pt == "float":
            import struct
            vals = raw if isinstance(raw, list) else list(raw.values()) if isinstance(raw, dict) else [raw]
            for x in vals:
                if isinstance(x, float) and x == x:
                    try:
                        if struct.unpack("<f", struct.pack("<f", x))[0] != x:
                            return "float32_not_representable"
                    except OverflowError:
                        return "float32_not_representable"
        kids = []
        if isinstance(raw, bp.Message):
            sel = f.group is not None and gc.get(f"g{f.group}") == f.name
            if not bp.serialized_on_wire(raw) and (f.card == "optional" or sel or raw != type(raw)()):
                return "flag_down_but_emitted"
            kids = [raw]
        elif isinstance(raw, list):
            kids = [x for x in raw if isinstance(x, bp.Message)]
        elif isinstance(raw, dict):
            kids = [x for x in raw.values() if isinstance(x, bp.Message)]
        for x in kids:
            if f.card in ("repeated", "map") and not bp.serialized_on_wire(x):
                return "flag_down_but_emitted"
            r = roundtrip_preconditions(schema, f.elem.ref, x)
            if r:
                return r
    return None


def run_history(R, si, ci, m, ops, rng, label, second_round=True, in_range=True):
    """m: real object of user class ci of schema si; ops: observer dicts. Registers correspondence cases and oracle failures."""
    import betterproto as bp
    ctx = R.ctx
    s = R.schemas[si]
    sc = f"sc{si}"
    trail = []
    try:
        start_repr = f"[{label}] " + safe_repr(m)
        depth = msggen.depth_of(m) + 2
        probes = [raw_clone(m), s.classes[ci].py(), msggen.gen_message(s, ci, rng)]
        changed_state = False
        kinds = []
        for op in ops:
            info = lambda: history_info(s, ci, start_repr, trail + [describe_op(op)])  # noqa
            before = lit(s, m)
            meas0 = measure(m, probes, depth)
            set0 = is_set_tuple(m)
            try:
                out = ("ok", apply_observer(s, ci, m, op))
            except RecursionError:
                ctx.count("abandoned:RecursionError(to_dict on a recursive type)")
                return
            except Exception as e:  # noqa
                out = ("exc", type(e).__name__)
            trail.append(describe_op(op))
            kinds.append(op["k"])
            ctx.count("observer:" + op["k"] + (":raised" if out[0] == "exc" else ""))
            after = lit(s, m)
            meas1 = measure(m, probes, depth)
            set1 = is_set_tuple(m)
            ctx.cov["evaluations"] += 1
            if after != before:
                changed_state = True
                ctx.count("observer_changed_raw_state")
            # ---- oracle: the observer changed nothing observable
            d = diff_measure(meas0, meas1)
            if d:
                R.fail("oracle", f"observer {op['k']} changed {'/'.join(d)} of the message", None, info(),
                       before={k: repr(meas0[k])[:600] for k in d}, after={k: repr(meas1[k])[:600] for k in d})
            if set0 != set1:
                c = s.classes[ci]
                flipped = [c.fields[i] for i in range(len(set0)) if set0[i] != set1[i]]
                if all(f.card not in ("optional",) for f in flipped):
                    R.fail("oracle", f"is_set of an implicit-presence field flips from False to True after {op['k']}",
                           "is_set_after_read", info(), fields=[f.name for f in flipped])
                else:
                    R.fail("oracle", f"is_set of a proto3-optional field changed after {op['k']}", None, info())
            # ---- correspondence
            ob = coq_observer(s, op)
            if out[0] == "ok" or op["k"] == "get":
                R.case(f"(let a := {before} in let b := {after} in CL [cbool (cv_eqb (cv_of_obj (observe {sc} a {ob})) (cv_of_obj b)); "
                       f"cbool (mat_obj {sc} a b); cv_is_set {sc} b])",
                       cl([cbool(True), cbool(True), cl([cbool(x) for x in set1])]),
                       {"what": f"observe {op['k']}", "info": info(), "si": si})
            else:
                R.case(f"(let a := {before} in let b := {after} in CL [cbool (mat_obj {sc} a b)])", cl([cbool(True)]),
                       {"what": f"mat after raising {op['k']}", "info": info(), "si": si})
        # ---- presence report: model vs API
        for _ in range(2):
            steps, rep = gen_presence_path(s, ci, m, rng)
            R.case(f"(cv_presence (presence_at {sc} {lit(s, m)} [{'; '.join(steps)}]))", rep if rep is not None else CN,
                   {"what": "presence_at", "info": history_info(s, ci, start_repr, trail + [{"presence_path": steps}]), "si": si})
            ctx.count("presence_path:" + ("reported" if rep is not None else "not navigable"))
        # ---- copies
        results = []
        for kind in ("copy", "deepcopy", "pickle"):
            info = lambda: history_info(s, ci, start_repr, trail + [{"k": kind}])  # noqa
            before = lit(s, m)
            meas0 = measure(m, probes, depth)
            try:
                r = {"copy": copy.copy, "deepcopy": copy.deepcopy, "pickle": histgen.pickle_rt}[kind](m)
                out = "ok"
            except RecursionError:
                return
            except Exception as e:  # noqa
                r, out = None, type(e).__name__
            after = lit(s, m)
            meas1 = measure(m, probes, depth)
            ctx.count(f"{kind}:{'ok' if r is not None else 'raised'}")
            ctx.cov["evaluations"] += 1
            d = diff_measure(meas0, meas1)
            if d:
                R.fail("oracle", f"{kind} changed {'/'.join(d)} of the ORIGINAL message", None, info(),
                       before={k: repr(meas0[k])[:600] for k in d}, after={k: repr(meas1[k])[:600] for k in d})
            if kind in ("copy", "deepcopy") and after != before:
                R.fail("oracle", f"{kind} changed the raw state of the original message", None, info())
            model_fn = {"copy": f"Ok (copy {sc} a)", "deepcopy": f"Ok (deepcopy {sc} a)", "pickle": f"pickle_rt {sc} a"}[kind]
            if r is None:
                if kind == "pickle":
                    # bytes(m) raised: the model must fail as well
                    R.case(f"(let a := {before} in cv_obj_res ({model_fn}))", ce("EOther"), {"what": kind + " raises", "info": info(), "si": si})
                else:
                    R.fail("oracle", f"{kind} raised {out}", None, info())
                continue
            try:
                rl = lit(s, r)
            except msggen.Unmodellable:
                continue
            R.case(f"(let a := {before} in cv_obj_res ({model_fn}))", f"(cv_of_obj {rl})", {"what": kind, "info": info(), "si": si})
            if kind != "pickle":
                # the side condition of the copy / deepcopy theorems (one raw attribute per declared field, recursively)
                R.case(f"(let a := {before} in cbool (shaped_obj {sc} a))", cbool(True),
                       {"what": "shaped_obj (hypothesis of the copy theorems) on a real object", "info": info(), "si": si})
            if kind == "pickle":
                R.case(f"(let a := {before} in let b := {after} in CL [cbool (cv_eqb (cv_of_obj (touch {sc} a)) (cv_of_obj b))])",
                       cl([cbool(True)]), {"what": "state of the original after pickle", "info": info(), "si": si})
                # the hypotheses of C14_pickle (one boolean each, Model/C14Pickle.v) on the state that was pickled, and the
                # conclusion about presence at every path, evaluated on the snapshot of the REAL unpickled object
                has_unk = bool(object.__getattribute__(m, "_unknown_fields"))
                nested_unk = has_nested_unknown(m)
                tag = ":with_nested_unknown_fields" if nested_unk else ":with_unknown_fields" if has_unk else ""
                for pre in ("pickle_pre", "pickle_pre_u", "pickle_pre_u_deep"):
                    R.probes.append((f"(let a := {before} in cbool ({pre} {sc} a))", pre + tag))
                for _ in range(1):
                    steps, _rep = gen_presence_path(s, ci, m, rng)
                    pth = "[" + "; ".join(steps) + "]"
                    R.case(f"(let a := {before} in let b := {rl} in cbool (implb (orb (pickle_pre_deep {sc} a) (pickle_pre_u_deep {sc} a)) "
                           f"(cv_eqb (cv_presence (presence_below {sc} b {pth})) (cv_presence (presence_below {sc} a {pth})))))",
                           cbool(True), {"what": "C14_pickle: presence of the real unpickled object at a path, under the theorem's hypotheses",
                                         "info": info(), "si": si})
            # ---- oracle: the copy is faithful
            measr = measure(r, probes, depth)
            problems = []
            pre = (roundtrip_preconditions(s, ci, m) if in_range else "out_of_range_values") if kind == "pickle" else None
            if pre:
                ctx.count("pickle_outside_roundtrip_preconditions:" + pre)
            if measr["bytes"] != meas1["bytes"] and not pre:
                problems.append(f"bytes({kind}) = {measr['bytes']!r} but bytes(original) = {meas1['bytes']!r}")
            if measr["unknown"] != meas1["unknown"]:
                problems.append("unknown fields differ")
            eq = safe(lambda: (raw_clone(r) == raw_clone(m), raw_clone(m) == raw_clone(r)))
            if eq != ("ok", (True, True)) and not pre:
                problems.append(f"{kind} == original gives {eq}")
            if kind != "pickle":
                if measr["presence"] != meas1["presence"]:
                    problems.append("presence report differs")
                if measr["eq"] != meas1["eq"]:
                    problems.append("== against the probes differs")
            elif not pre:
                pa = safe(lambda: presence_api(raw_clone(r), depth, True, True))
                pb = safe(lambda: presence_api(raw_clone(m), depth, True, True))
                if pa != pb:
                    problems.append("presence report below the top-level flag differs")
            for p in problems:
                R.fail("oracle", p, None, info(), copy_repr=safe_repr(r))
            results.append((kind, r))
            # ---- independence (implementation only)
            snap = lit(s, m)
            try:
                nmut = scramble(s, ci, r, rng, deep=(kind != "copy"))
            except RecursionError:
                nmut = 0
            ctx.count(f"mutations_of_{kind}", nmut)
            if lit(s, m) != snap or diff_measure(meas1, measure(m, probes, depth)):
                R.fail("oracle", f"mutating the {kind} changed the original", None, info())
        bts = meas1["bytes"] if results else ("exc", "")
        if changed_state or (bts[0] == "ok" and bts[1]):
            ctx.seen_nontrivial((si, ci, tuple(kinds), bts[1] if bts[0] == "ok" else b""))
        if len(ctx.cov["samples"]) < 8 and changed_state:
            ctx.sample({"class": s.classes[ci].name, "start": start_repr[:300], "observers": [describe_op(o) for o in ops][:6]})
        # ---- second round: the history goes on with one of the copies
        if second_round and results and rng.random() < 0.5:
            kind, r = rng.choice(results)
            kind2 = {"copy": copy.copy, "deepcopy": copy.deepcopy, "pickle": histgen.pickle_rt}[kind]
            try:
                r2 = kind2(m)   # a fresh one: r was scrambled
            except Exception:  # noqa
                return
            ops2 = [gen_observer(s, ci, rng, r2) for _ in range(rng.randint(1, 4))]
            run_history(R, si, ci, r2, ops2, rng, label + "+" + kind, second_round=False, in_range=in_range)
    except RecursionError:
        ctx.count("abandoned:RecursionError")
    except msggen.Unmodellable:
        ctx.count("unmodellable")
    except Exception as e:  # noqa  -- the object is in a state the harness cannot even walk: that is a failure of the property
        import traceback
        R.fail("oracle", f"the history left the message in a state that cannot be examined ({type(e).__name__}: {e})", None,
               history_info(s, ci, "[" + label + "]", trail), traceback=traceback.format_exc()[-1500:])


# --------------------------------------------------------------------------------------------------
def nested_messages(s, ci, m, depth=0):
    """(class index, message) for every message held inside m (singular, list elements, map values), recursively"""
    import betterproto as bp
    out = []
    if depth > 6:
        return out
    for f in s.classes[ci].fields:
        if f.elem.kind != "msg":
            continue
        raw = object.__getattribute__(m, f.name)
        kids = [raw] if isinstance(raw, bp.Message) else list(raw) if isinstance(raw, list) else \
            list(raw.values()) if isinstance(raw, dict) else []
        for x in kids:
            if isinstance(x, bp.Message):
                out.append((f.elem.ref, x))
                out.extend(nested_messages(s, f.elem.ref, x, depth + 1))
    return out


def has_nested_unknown(m):
    import betterproto as bp
    for f in dataclasses.fields(m):
        raw = object.__getattribute__(m, f.name)
        kids = [raw] if isinstance(raw, bp.Message) else list(raw) if isinstance(raw, list) else \
            list(raw.values()) if isinstance(raw, dict) else []
        for x in kids:
            if isinstance(x, bp.Message) and (object.__getattribute__(x, "_unknown_fields") or has_nested_unknown(x)):
                return True
    return False


def build_value(s, ci, rng, how, in_range):
    import betterproto as bp
    c = s.classes[ci]
    m = msggen.gen_message(s, ci, rng, in_range=in_range)
    if how == "constructed":
        return m
    if how == "decoded":
        # unknown records inside nested messages as well: what a decoder of an older schema holds at any depth
        if rng.random() < 0.4:
            for cj, x in nested_messages(s, ci, m):
                if rng.random() < 0.4:
                    object.__setattr__(x, "_unknown_fields", msggen.gen_unknown(rng, {f.number for f in s.classes[cj].fields}))
        try:
            bs = bytes(m)
        except Exception:  # noqa
            return m
        unk = msggen.gen_unknown(rng, {f.number for f in c.fields}) if rng.random() < 0.6 else b""
        try:
            return c.py().parse(bs + unk)
        except Exception:  # noqa
            return m
    if how == "from_dict":
        try:
            return c.py().from_dict(raw_clone(m).to_dict(include_default_values=rng.random() < 0.3))
        except RecursionError:
            return m
        except Exception:  # noqa
            return m
    raise ValueError(how)


def corpus_value(s, spec):
    """corpus entry -> real object of the regression schema"""
    import betterproto as bp
    names = {c.name: i for i, c in enumerate(s.classes)}

    def val(x):
        if isinstance(x, dict) and "$msg" in x:
            ci = names[x["$msg"]]
            return s.classes[ci].py(**{k: val(v) for k, v in x.get("kw", {}).items()})
        if isinstance(x, dict) and "$map" in x:
            return {k: val(v) for k, v in x["$map"]}
        if isinstance(x, dict) and "$nan" in x:
            return float("nan")
        if isinstance(x, list):
            return [val(v) for v in x]
        return x
    ci = names[spec["cls"]]
    m = s.classes[ci].py(**{k: val(v) for k, v in spec.get("kw", {}).items()})
    for k, v in spec.get("set", []):
        setattr(m, k, val(v))
    if spec.get("parse_hex"):
        m.parse(bytes.fromhex(spec["parse_hex"]))
    return ci, m


def corpus_ops(s, ci, spec):
    c = s.classes[ci]
    names = [f.name for f in c.fields]
    ops = []
    for o in spec.get("ops", []):
        if o.startswith("get:"):
            parts = o[4:].split(".")
            path, cur = [], ci
            for p in parts[:-1]:
                fs = s.classes[cur].fields
                j = [f.name for f in fs].index(p)
                path.append(j)
                cur = fs[j].elem.ref
            ops.append({"k": "get", "path": path, "i": [f.name for f in s.classes[cur].fields].index(parts[-1])})
        elif o in ("to_dict", "to_json", "to_pydict"):
            ops.append({"k": o, "idv": False})
        elif o in ("to_dict+", "to_json+", "to_pydict+"):
            ops.append({"k": o[:-1], "idv": True})
        elif o == "dump":
            ops.append({"k": "dump", "delimit": True})
        elif o == "eqself":
            ops.append({"k": "eq", "other": None})
        else:
            ops.append({"k": o})
    return ops


# --------------------------------------------------------------------------------------------------
# aliasing stage: the heap model (coq/Model/C14Heap.v) against object identity on the implementation
# --------------------------------------------------------------------------------------------------
ALIAS_IMPORTS = IMPORTS + " Model.C14Heap Model.C14HeapCv"


def _mutable(x):
    import betterproto as bp
    return isinstance(x, (bp.Message, list, dict))


def _cls_of(schema, m):
    cls = type(m)
    if cls not in schema.index_of:
        raise msggen.ForeignValue(f"class {cls.__qualname__} is not a class of this schema")
    return schema.classes[schema.index_of[cls] - msggen.NBUILTIN]


def walk_ids(schema, root):
    """(path, id) of every Message / list / dict below root (root included), preorder, raw attributes (no default is
    created), fields in declaration order, lists in order, dicts in insertion order: Model/C14Heap.v `paths`"""
    import betterproto as bp
    out = []

    def go(x, path, depth):
        if depth > 40:
            raise msggen.Unmodellable("too deep")
        out.append((tuple(path), id(x)))
        if isinstance(x, bp.Message):
            c = _cls_of(schema, x)
            for i, f in enumerate(c.fields):
                v = object.__getattribute__(x, f.name)
                if _mutable(v):
                    go(v, path + [("f", i)], depth + 1)
        elif isinstance(x, list):
            for k, v in enumerate(x):
                if _mutable(v):
                    go(v, path + [("i", k)], depth + 1)
        else:
            for key, v in x.items():
                if _mutable(v):
                    go(v, path + [("k", key)], depth + 1)
    go(root, [], 0)
    return out


def cv_key_py(key):
    if isinstance(key, bool):
        return cl([cz(1), cbool(key)])
    if isinstance(key, int):
        return cl([cz(0), cz(key)])
    if isinstance(key, str):
        return cl([cz(2), cb(key.encode("utf-8"))])
    raise msggen.Unmodellable("dict key of type " + type(key).__name__)


def cv_path_py(path):
    items = []
    for t, x in path:
        items.append(cl([cz(0), cz(x)]) if t == "f" else cl([cz(1), cz(x)]) if t == "i" else cl([cz(2), cv_key_py(x)]))
    return cl(items)


def cv_pairs_py(pairs):
    return cl([cl([cv_path_py(p), cv_path_py(q)]) for p, q in pairs])


def coq_path(schema, path):
    items = []
    for t, x in path:
        items.append(f"PField {x}%nat" if t == "f" else f"PItem {x}%nat" if t == "i" else f"PKey {msggen.pv_literal(schema, x)}")
    return "[" + "; ".join(items) + "]"


def py_nav(schema, root, path):
    """Model/C14Heap.v `nav` on real objects: attribute reads go through getattr (lazy defaults are stored)"""
    import betterproto as bp
    cur = root
    for t, x in path:
        if t == "f":
            if not isinstance(cur, bp.Message):
                return None
            c = _cls_of(schema, cur)
            if x >= len(c.fields):
                return None
            try:
                cur = getattr(cur, c.fields[x].name)
            except AttributeError:
                return None
        elif t == "i":
            if not isinstance(cur, list) or x >= len(cur):
                return None
            cur = cur[x]
        else:
            if not isinstance(cur, dict) or x not in cur:
                return None
            cur = cur[x]
        if not _mutable(cur):
            return None
    return cur


def py_mut(schema, root, mu):
    """Model/C14Heap.v `h_mut` on real objects"""
    import betterproto as bp
    k = mu[0]
    if k == "appendref":
        b = py_nav(schema, root, mu[2])
        if b is None:
            return
        a = py_nav(schema, root, mu[1])
        if isinstance(a, list):
            a.append(b)
        return
    a = py_nav(schema, root, mu[1])
    if a is None or k == "read":
        return
    if k == "set":
        if isinstance(a, bp.Message):
            c = _cls_of(schema, a)
            if mu[2] < len(c.fields):
                setattr(a, c.fields[mu[2]].name, mu[3])
    elif k == "append":
        if isinstance(a, list):
            a.append(mu[2])
    elif k == "listset":
        if isinstance(a, list) and mu[2] < len(a):
            a[mu[2]] = mu[3]
    elif k == "dictset":
        if isinstance(a, dict):
            a[mu[2]] = mu[3]
    elif k == "dictdel":
        if isinstance(a, dict) and mu[2] in a:
            del a[mu[2]]


def coq_mut(schema, mu, lits):
    """lits: the literals of the assigned values, taken BEFORE the mutation ran (__setattr__ may raise the value's flag)"""
    k = mu[0]
    P = lambda p: coq_path(schema, p)  # noqa
    if k == "appendref":
        return f"MAppendRef {P(mu[1])} {P(mu[2])}"
    if k == "read":
        return f"MRead {P(mu[1])}"
    if k == "set":
        return f"MSet {P(mu[1])} {mu[2]}%nat {lits}"
    if k == "append":
        return f"MAppend {P(mu[1])} {lits}"
    if k == "listset":
        return f"MListSet {P(mu[1])} {mu[2]}%nat {lits}"
    if k == "dictset":
        return f"MDictSet {P(mu[1])} {msggen.pv_literal(schema, mu[2])} {lits}"
    if k == "dictdel":
        return f"MDictDel {P(mu[1])} {msggen.pv_literal(schema, mu[2])}"
    raise ValueError(k)


def mut_value(mu):
    return {"set": 3, "append": 2, "listset": 3, "dictset": 3}.get(mu[0])


def gen_mut(schema, root, rng):
    """a mutation through root, chosen by walking a replica (so that choosing creates nothing in the real object)"""
    import betterproto as bp
    rep = raw_clone(root)
    cur, path = rep, []
    for _ in range(rng.choice([0, 0, 1, 1, 2, 3, 4])):
        if isinstance(cur, bp.Message):
            c = _cls_of(schema, cur)
            cands = [i for i, f in enumerate(c.fields) if f.card in ("repeated", "map") or (f.elem.kind == "msg" and f.card == "plain")]
            if not cands:
                break
            i = rng.choice(cands)
            try:
                nxt = getattr(cur, c.fields[i].name)
            except AttributeError:
                break
            step = ("f", i)
        elif isinstance(cur, list):
            ks = [k for k, v in enumerate(cur) if _mutable(v)]
            if not ks:
                break
            k = rng.choice(ks)
            nxt, step = cur[k], ("i", k)
        else:
            ks = [k for k, v in cur.items() if _mutable(v)]
            if not ks:
                break
            k = rng.choice(ks)
            nxt, step = cur[k], ("k", k)
        if not _mutable(nxt):
            break
        cur = nxt
        path.append(step)
    if isinstance(cur, bp.Message):
        c = _cls_of(schema, cur)
        if not c.fields or rng.random() < 0.15:
            return ("read", path)
        i = rng.randrange(len(c.fields))
        return ("set", path, i, msggen.gen_field_value(schema, c.fields[i], rng, 3))
    # the field that holds this container: the last field step on the path
    holder, f = rep, None
    for t, x in path:
        if t == "f":
            f = _cls_of(schema, holder).fields[x]
            holder = getattr(holder, f.name)
        elif t == "i":
            holder = holder[x]
        else:
            holder = holder[x]
    if f is None:
        return ("read", path)
    if isinstance(cur, list):
        if cur and rng.random() < 0.3:
            return ("listset", path, rng.randrange(len(cur)), msggen.gen_elem(schema, f.elem, rng, 3))
        return ("append", path, msggen.gen_elem(schema, f.elem, rng, 3))
    if cur and rng.random() < 0.3:
        return ("dictdel", path, rng.choice(list(cur.keys())))
    key = rng.choice(list(cur.keys())) if cur and rng.random() < 0.3 else msggen.gen_scalar(f.key.pt, rng, True)
    return ("dictset", path, key, msggen.gen_elem(schema, f.elem, rng, 3))


def gen_alias(schema, root, rng):
    """root.<list>.append(root.<something of the element class>): aliasing inside one structure (what copy.deepcopy's memo
    is about: the same message twice in ONE list is copied once, a message held by two fields twice)"""
    import betterproto as bp
    ids = walk_ids(schema, root)
    objs = {}

    def at(path):
        cur = root
        for t, x in path:
            cur = object.__getattribute__(cur, _cls_of(schema, cur).fields[x].name) if t == "f" else cur[x]
        return cur
    lists = []
    for path, _ in ids:
        if path and path[-1][0] == "f":
            holder = at(path[:-1])
            f = _cls_of(schema, holder).fields[path[-1][1]]
            if f.card == "repeated" and f.elem.kind == "msg":
                lists.append((path, f.elem.ref))
    rng.shuffle(lists)
    for lpath, ref in lists:
        cands = [p for p, _ in ids if p and isinstance(at(p), bp.Message)
                 and schema.index_of[type(at(p))] - msggen.NBUILTIN == ref and p[:len(lpath)] != lpath[:len(p)]]
        same = [p for p, _ in ids if len(p) == len(lpath) + 1 and p[:len(lpath)] == lpath]
        pool = same * 2 + cands
        lst = at(lpath)
        # never append an object that reaches the list itself (a cycle: bytes() would not terminate)
        pool = [p for p in pool if id(lst) not in {i for _, i in walk_ids(schema, at(p))}]
        if pool:
            return ("appendref", list(lpath), list(rng.choice(pool)))
    return None


def aliasing_stage(ctx, schemas):
    import random
    rng = random.Random(ctx.seed * 7919 + 14)
    ncases = 14 if not ctx.thorough else 120
    pairs, meta, prelude = [], [], []
    for si, s in enumerate(schemas):
        prelude.append(f"Definition asc{si} : schema := {s.coq()}.")
        made = tries = 0
        while made < ncases and tries < ncases * 6:
            tries += 1
            ci = rng.randrange(len(s.classes))
            try:
                base = build_value(s, ci, rng, rng.choice(["constructed", "constructed", "decoded"]), True)
                lit0 = lit(s, base)
                pre = []
                if rng.random() < 0.7:
                    m = raw_clone(base)
                    for _ in range(rng.choice([1, 1, 2])):
                        a = gen_alias(s, m, rng)
                        if a is not None:
                            pre.append(a)
                            py_mut(s, m, a)
                pre_coq = "[" + "; ".join(coq_mut(s, a, None) for a in pre) + "]"
            except (RecursionError, msggen.Unmodellable, msggen.ForeignValue):
                ctx.count("aliasing:skipped")
                continue
            except Exception as e:  # noqa
                ctx.count("aliasing:construct_error:" + type(e).__name__)
                continue
            made += 1
            if pre:
                ctx.count("aliasing:original_with_internal_aliasing")
            for kn, (kind, fn) in enumerate([("copy", copy.copy), ("deepcopy", copy.deepcopy), ("pickle", histgen.pickle_rt)]):
                # a fresh original for every operation (mutating the SHALLOW copy changes the original it was taken from)
                try:
                    m = raw_clone(base)
                    for a in pre:
                        py_mut(s, m, a)
                    before = lit(s, m)
                except (RecursionError, msggen.Unmodellable, msggen.ForeignValue):
                    ctx.count("aliasing:skipped")
                    continue
                info = {"schema": s.describe(), "class": s.classes[ci].name, "original": safe_repr(m), "aliasing": repr(pre)[:400],
                        "operation": kind}
                try:
                    r = fn(m)
                except RecursionError:
                    continue
                except Exception as e:  # noqa
                    if kind == "pickle":
                        pairs.append((f"alias_case asc{si} {lit0} {pre_coq} 2%nat []", ce("EOther")))
                        meta.append({"what": "pickle raises", "info": info})
                    else:
                        ctx.fail("oracle", f"{kind} raised {type(e).__name__}", None, input=info)
                    continue
                try:
                    # pickling runs bytes(m), which stores lazy defaults in the original (Model/History.v touch; the observer
                    # theorems): the state to be preserved by the mutations of the copy is the one after the operation
                    after_op = lit(s, m)
                    ids_m = walk_ids(s, m)
                    ids_r = walk_ids(s, r)
                    shared = [(p, q) for p, a in ids_m for q, b in ids_r if a == b]
                    within = [(p, q) for j, (p, a) in enumerate(ids_r) for q, b in ids_r[j + 1:] if a == b]
                    copy_lit = lit(s, r)
                    # ---- oracle: a deep / unpickled copy has no mutable object in common with the original
                    if kind != "copy" and shared:
                        ctx.fail("oracle", f"the {kind} shares a mutable object with the original at {shared[0]!r}", None, input=info)
                    ctx.count(f"aliasing:{kind}:shared_pairs", len(shared))
                    ctx.count(f"aliasing:{kind}:pairs_inside_copy", len(within))
                    post, post_coq = [], []
                    for _ in range(rng.choice([1, 2, 3, 5])):
                        mu = gen_mut(s, r, rng)
                        vi = mut_value(mu)
                        post_coq.append(coq_mut(s, mu, msggen.pv_literal(s, mu[vi]) if vi is not None else None))
                        post.append(mu)
                        py_mut(s, r, mu)
                        ctx.count("aliasing:mutation:" + mu[0])
                    info["mutations_of_the_copy"] = repr(post)[:1200]
                    after = lit(s, m)
                    after_copy = lit(s, r)
                except (RecursionError, msggen.Unmodellable, msggen.ForeignValue):
                    ctx.count("aliasing:skipped")
                    continue
                if kind != "copy" and after != after_op:
                    ctx.fail("oracle", f"mutating the {kind} changed the original", None, input=info)
                if kind == "copy" and after != after_op:
                    ctx.count("aliasing:copy:mutation_visible_in_original")
                # bytes(m) inside pickle stores lazy defaults in the original; the model compares up to the tree-level `touch`, which
                # cannot describe an original with aliasing inside (one object touched through one path shows at the other): kind 3
                skip_after = kind == "pickle" and pre
                expected = cl([f"(cv_of_obj {before})", cv_pairs_py(shared), cv_pairs_py(within), f"(cv_of_obj {copy_lit})",
                               CN if skip_after else f"(cv_of_obj {after})", f"(cv_of_obj {after_copy})"])
                pairs.append((f"alias_case asc{si} {lit0} {pre_coq} {3 if skip_after else kn}%nat [" + "; ".join(post_coq) + "]", expected))
                meta.append({"what": f"sharing structure / effect of mutations: {kind}", "info": info})
                ctx.seen_nontrivial(("aliasing", si, ci, kind, len(shared), len(within), len(post)))
    if not pairs:
        return
    try:
        bad = lib.coq_compare(ctx, "c14alias", ALIAS_IMPORTS, pairs, chunk=12, prelude="\n".join(prelude))
    except RuntimeError as e:
        ctx.fail("corr", "the aliasing model cannot be evaluated: " + str(e)[-800:], no_input=True,
                 theorem_or_correspondence="C14_deepcopy_independent")
        return
    ctx.count("aliasing:cases", len(pairs))
    for i in bad[:6]:
        ctx.fail("corr", "heap model and implementation disagree: " + meta[i]["what"], input=meta[i]["info"],
                 model_expr=pairs[i][0][:6000], implementation=pairs[i][1][:3000])



def run(ctx):
    rng = ctx.rng
    R = Run(ctx)
    # ---- regression corpus first
    rs = regress_schema()
    rsi = R.add_schema(rs)
    corpus = json.load(open(CORPUS))["inputs"]
    for spec in corpus:
        try:
            ci, m = corpus_value(rs, spec)
        except Exception as e:  # noqa
            ctx.fail("crash", f"corpus entry {spec.get('name')} cannot be built: {type(e).__name__}: {e}", no_input=True,
                     theorem_or_correspondence="regression corpus")
            continue
        ops = corpus_ops(rs, ci, spec)
        for o in ops:
            if o["k"] == "eq" and o.get("other") is None:
                o["other"] = raw_clone(m)
        ctx.count("corpus")
        run_history(R, rsi, ci, m, ops, rng, "corpus:" + spec["name"], second_round=False)
    # ---- generated histories
    nrand = 5 if not ctx.thorough else 40
    others = [msggen.matrix_schema()] + [msggen.random_schema(rng) for _ in range(nrand)]
    sis = [rsi] + [R.add_schema(s) for s in others]
    per = 34 if not ctx.thorough else 160
    for si in sis:
        s = R.schemas[si]
        rec = recursive_classes(s)
        k = per * (3 if si in (rsi, sis[1]) else 1)
        for _ in range(k):
            ci = rng.randrange(len(s.classes))
            how = rng.choice(["constructed", "constructed", "decoded", "from_dict"])
            inr = rng.random() < 0.9
            try:
                m = build_value(s, ci, rng, how, inr)
            except RecursionError:
                continue
            except Exception as e:  # noqa
                ctx.count("construct_error:" + type(e).__name__)
                continue
            ctx.count("prefix:" + how)
            ops = []
            for _ in range(rng.choice([0, 1, 2, 3, 4, 5, 7])):
                o = gen_observer(s, ci, rng, m)
                if o.get("idv") and ci in rec:
                    o["idv"] = rng.random() < 0.1      # RecursionError there: try it rarely
                ops.append(o)
            run_history(R, si, ci, m, ops, rng, how, in_range=inr)
    # ---- evaluate the model on everything that was recorded
    prelude = "\n".join(f"Definition sc{i} : schema := {s.coq()}." for i, s in enumerate(R.schemas))
    # the hypotheses of the theorems hold on what was generated
    for i, s in enumerate(R.schemas):
        R.case(f"(CL [cbool (wf_schema sc{i}); cbool (schema_opt_ok sc{i})])", cl([cbool(True), cbool(True)]),
               {"what": "wf_schema / schema_opt_ok of a generated schema", "info": {"schema": s.describe()}, "si": i})
    import time
    t_py = time.time() - ctx.t0
    ctx.notes.append(f"python phase done at {t_py:.1f}s, {len(R.pairs)} correspondence cases, {sum(len(a) + len(b) for a, b in R.pairs)} characters")
    try:
        bad = lib.coq_compare(ctx, "c14", IMPORTS, R.pairs, chunk=60, prelude=prelude)
    except RuntimeError as e:
        if "inconsistent assumptions" not in str(e):
            raise
        # another check regenerated coq/gen/*.v while this one was running: rebuild once and evaluate again
        ctx.notes.append("compiled libraries changed under the run (concurrent build): rebuilt and re-evaluated")
        lib.build(ctx, ["Properties/C14.vo"] + EXTRA_TARGETS)
        bad = lib.coq_compare(ctx, "c14r", IMPORTS, R.pairs, chunk=60, prelude=prelude)
    ctx.notes.append(f"coq phase took {time.time() - ctx.t0 - t_py:.1f}s")
    # how often the hypotheses of the pickle theorems hold on what was generated (mismatch with `true` = does not hold;
    # these are measurements, not failures)
    if R.probes:
        before_n = ctx.cov["traces_validated_against_impl"]
        try:
            no = set(lib.coq_compare(ctx, "c14pre", IMPORTS, [(e, cbool(True)) for e, _ in R.probes], chunk=60, prelude=prelude))
        except RuntimeError as e:
            ctx.fail("corr", "the hypotheses of the pickle theorems cannot be evaluated: " + str(e)[-600:], no_input=True,
                     theorem_or_correspondence="C14_pickle")
            no = set(range(len(R.probes)))
        ctx.cov["traces_validated_against_impl"] = before_n
        for i, (_, label) in enumerate(R.probes):
            ctx.count("pickle_theorem_hypotheses:" + label + (":hold" if i not in no else ":do_not_hold"))
    for i in bad[:12]:
        meta = R.meta[i]
        ctx.fail("corr", f"model and implementation disagree: {meta['what']}", input=meta["info"],
                 model_expr=R.pairs[i][0][:6000], implementation=R.pairs[i][1][:3000])
    ctx.cov["disagreements_checked"] = len(R.pairs)
    # ---- object identity: sharing structure and independence against the heap model
    try:
        aliasing_stage(ctx, R.schemas[:3])
    except Exception as e:  # noqa
        import traceback
        ctx.fail("crash", f"the aliasing stage raised {type(e).__name__}: {e}", no_input=True,
                 theorem_or_correspondence="C14_deepcopy_independent", traceback=traceback.format_exc()[-2000:])
    for s in R.schemas:
        s.dispose()


def finish(ctx):
    return lib.finish(
        ctx, "proof",
        "Coq theorems over a Gallina mirror of the observers' effect on the raw state (lazy-default write-back), of copy / deepcopy / pickle, "
        "of Message.__eq__ and of the encoder + executable correspondence (vm_compute) with the implementation on histories",
        ASSUMPTIONS, TRUSTED, RULE,
        extra_cov={"explanation": "theorems are unbounded (all well-formed schemas, all object states, all finite observer sequences, all "
                                  "histories over the operation alphabet after a copy); the correspondence and the oracle sample schemas, "
                                  "values and histories; independence of deep / unpickled copies: theorems over the heap model (unbounded heaps, "
                                  "depths and mutation sequences), sharing structure and mutation effects sampled against id() on real objects"})


def replay(ctx, obj):
    print(json.dumps(obj, indent=1, default=repr)[:6000])
    return 0
