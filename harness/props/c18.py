"""C18 — plugin options: model/implementation correspondence, translation validation of the six
option variants, and the oracle (every variant imports, defines the same classes, encodes identically).

Stages (run(ctx)):
  A  T2  compiler combinators: random type ASTs through the three real TypingCompiler classes vs Model/Typing.v
  B  T3  the denotation `denote` vs CPython's own evaluation of the same annotation text
  C  TV  own .proto generator -> real plugin under 3 x 2 options -> every annotation site / field line compared
         with the model; every variant imported under its own root package in its own subprocess; class tables,
         resolved type hints, enum members compared pairwise, with the schema and with the model; bytes()/to_json()
         of equal values compared across variants
  D      option parsing (parser.generate_code) vs the model on option strings
  E      the two bundled google.protobuf libraries (standard / pydantic) define the same classes

Failure classes (cls=) of the oracle: import-failure:<typing option>, pydantic-negative-enum, value-diff, construct-diff, table-diff,
service-diff, enum-diff, class-error, service-error, plugin-error, bundled-lib.  The three defects of the pinned tree
(F11 import-failure:310, F14 pydantic-negative-enum, F15 value-diff) have fix patches under fixes/c18-*.patch; there is no open
known finding, so every failure is a VIOLATION.
"""
import json
import keyword
import os
import re
import sys
import time
import traceback
from concurrent.futures import ThreadPoolExecutor

from .. import lib
from .. import plugin_util as PU
from .. import c18_protogen as G
from .. import gen_c18 as T1

VARIANTS = [(t, p) for t in ("direct", "root", "310") for p in (False, True)]


def vname(v):
    return f"{v[0]}_{'pyd' if v[1] else 'std'}"


def vopts(v):
    return [f"typing.{v[0]}"] + (["pydantic_dataclasses"] if v[1] else [])


# ======================================================================================
# worker: runs in its own subprocess, imports ONE variant tree under its unique root package
# ======================================================================================
def _canon_type(t, root):
    import typing
    import types as _types
    import collections.abc as cabc

    if t is type(None):
        return [["none"]]
    origin = getattr(t, "__origin__", None)
    if origin is typing.Union or isinstance(t, _types.UnionType):
        out = []
        for a in t.__args__:
            out += _canon_type(a, root)
        return out
    if origin is list:
        return [["list", _canon_type(t.__args__[0], root)]]
    if origin is dict:
        return [["dict", _canon_type(t.__args__[0], root), _canon_type(t.__args__[1], root)]]
    for nm, o in (("iterable", cabc.Iterable), ("asynciterable", cabc.AsyncIterable), ("asynciterator", cabc.AsyncIterator)):
        if origin is o:
            return [[nm, _canon_type(t.__args__[0], root)]]
    if isinstance(t, type):
        mod = t.__module__
        if mod == root or mod.startswith(root + "."):
            mod = mod[len(root):].lstrip(".")
        mod = mod.replace("betterproto.lib.pydantic.google", "betterproto.lib.google").replace("betterproto.lib.std.google", "betterproto.lib.google")
        return [["cls", mod, t.__qualname__]]
    return [["other", repr(t)]]


def _build(spec, mods, root):
    """turn a JSON value spec into a Python value of the variant under test"""
    import datetime

    if isinstance(spec, dict):
        if "__bytes__" in spec:
            return bytes.fromhex(spec["__bytes__"])
        if "__list__" in spec:
            return [_build(x, mods, root) for x in spec["__list__"]]
        if "__map__" in spec:
            return {_build(k, mods, root): _build(v, mods, root) for k, v in spec["__map__"]}
        if "__enum__" in spec:
            E = _lookup(spec["__enum__"], mods, root)
            return E.try_value(spec["value"]) if spec.get("undefined") else E(spec["value"])
        if "__datetime_us__" in spec:
            return datetime.datetime(1970, 1, 1, tzinfo=datetime.timezone.utc) + datetime.timedelta(microseconds=spec["__datetime_us__"])
        if "__timedelta_us__" in spec:
            return datetime.timedelta(microseconds=spec["__timedelta_us__"])
        if "__msg__" in spec:
            cls = _lookup(spec["__msg__"], mods, root)
            return cls(**{_pyfield(k): _build(v, mods, root) for k, v in spec["fields"].items()})
        raise ValueError(f"bad spec {spec}")
    return spec


def _pyfield(n):
    from betterproto.compile.naming import pythonize_field_name

    return pythonize_field_name(n)


_TYPEMAP = {}


def _lookup(full, mods, root):
    mod, cls = _TYPEMAP[full]
    if mod.startswith("betterproto."):
        import importlib

        m = importlib.import_module(mod)
    else:
        m = mods[mod]
        if isinstance(m, str):
            raise ImportError(f"package {mod} did not import: {m}")
    return getattr(m, cls)


def worker_main(job_path):
    import dataclasses
    import importlib
    import inspect
    import typing
    import warnings

    warnings.simplefilter("ignore")
    job = json.load(open(job_path))
    root = job["root"]
    pyd = job["pydantic"]
    out = {"packages": {}, "classes": {}, "enums": {}, "values": [], "services": {}}
    mods = {}
    for pkg in job["packages"]:
        try:
            mods[pkg] = importlib.import_module(f"{root}.{pkg}")
            out["packages"][pkg] = "ok"
        except BaseException as e:  # noqa  (SyntaxError, ImportError, pydantic errors ...)
            mods[pkg] = f"{type(e).__name__}: {e}"
            out["packages"][pkg] = f"{type(e).__name__}: {str(e)[:400]}"
    for full, (mod, cls) in job["typemap"].items():
        _TYPEMAP[full] = (mod, cls)
    for full, kind in job["types"].items():
        mod, cname = _TYPEMAP[full]
        m = mods.get(mod)
        if isinstance(m, str) or m is None:
            continue
        try:
            c = getattr(m, cname)
            if kind == "enum":
                out["enums"][full] = [[e.name, int(e.value)] for e in c]
                continue
            hints = c._type_hints()
            rows = []
            for f in dataclasses.fields(c):
                meta = f.metadata["betterproto"]
                rows.append({"name": f.name, "number": meta.number, "proto_type": meta.proto_type,
                             "map_types": list(meta.map_types) if meta.map_types else None, "group": meta.group,
                             "wraps": meta.wraps, "optional": bool(meta.optional),
                             "hint": _canon_type(hints[f.name], root)})
            inst = c()
            out["classes"][full] = {"rows": rows, "pydantic": hasattr(c, "__pydantic_fields__") or hasattr(c, "__pydantic_validator__"),
                                    "default_bytes": bytes(inst).hex()}
        except BaseException as e:  # noqa
            out["classes"][full] = {"error": f"{type(e).__name__}: {str(e)[:400]}"}
    # services: signatures of the stub / base methods, resolved
    for pkg, svcs in job["services"].items():
        m = mods.get(pkg)
        if isinstance(m, str) or m is None:
            continue
        for sname, meths in svcs.items():
            for suffix in ("Stub", "Base"):
                key = f"{pkg}:{sname}{suffix}"
                try:
                    c = getattr(m, sname + suffix)
                    ns = dict(vars(m))
                    import grpclib.server  # noqa: F401  (TYPE_CHECKING-only names of the generated module)
                    from betterproto.grpc.grpclib_client import MetadataLike
                    from grpclib.metadata import Deadline

                    ns.update({"MetadataLike": MetadataLike, "Deadline": Deadline})
                    res = {}
                    for py_name in meths:
                        fn = getattr(c, py_name)
                        h = typing.get_type_hints(fn, ns, {})
                        res[py_name] = {k: ("<skip>" if k in ("metadata",) else _canon_type(v, root)) for k, v in h.items()}
                        res[py_name]["__kind__"] = ("asyncgen" if inspect.isasyncgenfunction(fn) else
                                                    "coroutine" if inspect.iscoroutinefunction(fn) else "other")
                    if suffix == "Base":
                        mp = c().__mapping__()
                        res["__mapping__"] = {r: [h.cardinality.name, h.request_type.__qualname__, h.reply_type.__qualname__] for r, h in mp.items()}
                    out["services"][key] = res
                except BaseException as e:  # noqa
                    out["services"][key] = {"error": f"{type(e).__name__}: {str(e)[:400]}"}
    for i, case in enumerate(job["values"]):
        r = {"i": i}

        def step(name, fn):
            try:
                r[name] = fn()
            except BaseException as e:  # noqa
                r[name] = f"ERR:{type(e).__name__}"
                r.setdefault("detail", {})[name] = f"{type(e).__name__}: {str(e)[:300]}"
                return None
            return r[name]

        try:
            cls = _lookup(case["cls"], mods, root)
            obj = cls(**{_pyfield(k): _build(v, mods, root) for k, v in case["fields"].items()})
            r["construct"] = "ok"
        except BaseException as e:  # noqa
            r["construct"] = f"ERR:{type(e).__name__}"
            r["detail"] = {"construct": f"{type(e).__name__}: {str(e)[:400]}"}
            out["values"].append(r)
            continue
        b = step("bytes", lambda: bytes(obj).hex())
        j = step("json", lambda: obj.to_json())
        step("len", lambda: len(obj))
        if b is not None:
            step("reparse_bytes", lambda: bytes(cls().parse(bytes.fromhex(b))).hex())
            step("reparse_json", lambda: cls().parse(bytes.fromhex(b)).to_json())
        if j is not None:
            step("from_json_bytes", lambda: bytes(cls().from_json(j)).hex())
        out["values"].append(r)
    json.dump(out, open(job["out"], "w"))



# ======================================================================================
# Gallina literals
# ======================================================================================
IMPORTS = "Model.Types Model.Typing Proofs.TypingP"
IMPORTS_MODEL = "Model.Types Model.Typing"
COMP = {"direct": "CDirect", "root": "CRoot", "310": "C310"}
PTYPE = {"double": "TDouble", "float": "TFloat", "int32": "TInt32", "int64": "TInt64", "uint32": "TUInt32",
         "uint64": "TUInt64", "sint32": "TSInt32", "sint64": "TSInt64", "fixed32": "TFixed32", "fixed64": "TFixed64",
         "sfixed32": "TSFixed32", "sfixed64": "TSFixed64", "bool": "TBool", "string": "TString", "bytes": "TBytes",
         "enum": "TEnum", "message": "TMessage"}
PYSCALAR = {"double": "float", "float": "float", "bool": "bool", "string": "str", "bytes": "bytes"}


def cs(s):
    return lib.coq_bytes(s.encode("utf-8"))


def cb(s):
    return lib.cb(s.encode("utf-8"))


def copt_cb(s):
    return lib.CN if s is None else cb(s)


def have_proofs():
    """Proofs/TypingP.vo is there and current (it is not when the build broke before reaching it)"""
    vo = os.path.join(lib.COQ, "Proofs", "TypingP.vo")
    try:
        return (os.path.getmtime(vo) >= os.path.getmtime(os.path.join(lib.COQ, "Proofs", "TypingP.v"))
                and os.path.getmtime(vo) >= os.path.getmtime(os.path.join(lib.COQ, "Model", "Typing.vo")))
    except OSError:
        return False


def coq_opts(v):
    return f"{{| o_compiler := {COMP[v[0]]}; o_pydantic := {lib.coq_bool(v[1])} |}}"


def coq_ty(t):
    k = t[0]
    if k == "name":
        return f"(TName {cs(t[1])})"
    if k == "ref":
        return f"(TRef {cs(t[1])})"
    if k == "dict":
        return f"(TDict {coq_ty(t[1])} {coq_ty(t[2])})"
    if k == "union":
        return "(TUnion [" + "; ".join(coq_ty(x) for x in t[1]) + "])"
    ctor = {"optional": "TOptional", "list": "TList", "iterable": "TIterable", "async_iterable": "TAsyncIterable",
            "async_iterator": "TAsyncIterator"}[k]
    return f"({ctor} {coq_ty(t[1])})"


def real_print(c, t):
    k = t[0]
    if k == "name":
        return t[1]
    if k == "ref":
        return '"' + t[1] + '"'
    if k == "dict":
        a = real_print(c, t[1])
        b = real_print(c, t[2])
        return c.dict(a, b)
    if k == "union":
        return c.union(*[real_print(c, x) for x in t[1]])
    return getattr(c, k)(real_print(c, t[1]))


NAMES = ["int", "float", "str", "bytes", "bool", "datetime", "timedelta", "Foo", "Msg0", "_beta_deep__.Other",
         "betterproto_lib_google_protobuf.Empty", "builtins.int", "grpclib.const.Handler", "x9.Y_z", "A", "_", "__a__.B"]


def rand_ty(rng, depth, wf_for=None):
    """random type AST; with wf_for set only shapes that are well-formed for every compiler are produced"""
    r = rng.random()
    if depth <= 0 or r < 0.3:
        if rng.random() < 0.5 or (wf_for and depth < 0):
            return ("name", rng.choice(NAMES))
        return ("ref", rng.choice(NAMES))
    k = rng.choice(["optional", "list", "dict", "union", "iterable", "async_iterable", "async_iterator", "optional", "list"])
    if k == "dict":
        key = ("name", rng.choice(NAMES)) if (wf_for or rng.random() < 0.8) else rand_ty(rng, depth - 1)
        return ("dict", key, rand_ty(rng, depth - 1, wf_for))
    if k == "union":
        n = rng.choice([1, 2, 2, 3]) if wf_for else rng.choice([0, 1, 2, 2, 3])
        return ("union", [rand_ty(rng, depth - 1, wf_for) for _ in range(n)])
    if k in ("iterable", "async_iterable", "async_iterator"):
        if wf_for or rng.random() < 0.7:
            return (k, ("name", rng.choice(NAMES)))
        return (k, rand_ty(rng, depth - 1))
    return (k, rand_ty(rng, depth - 1, wf_for))


# ======================================================================================
# CPython's own evaluation of annotation text (T3 for the denotation)
# ======================================================================================
class _NS:
    pass


def py_denote(text):
    """evaluate `def f(x: <text>)` and resolve it with typing.get_type_hints; returns the canonical alternatives
    list (as _canon_type does, with dummy classes named by their source identifier) or None when CPython rejects"""
    import re
    import typing
    import collections.abc as cabc

    ns = {"typing": typing, "Optional": typing.Optional, "List": typing.List, "Dict": typing.Dict, "Union": typing.Union,
          "Iterable": typing.Iterable, "AsyncIterable": typing.AsyncIterable, "AsyncIterator": typing.AsyncIterator,
          "__builtins__": {"list": list, "dict": dict, "None": None}}
    reserved = {"typing", "Optional", "List", "Dict", "Union", "Iterable", "AsyncIterable", "AsyncIterator", "list", "dict", "None"}
    for ident in set(re.findall(r"[A-Za-z_][A-Za-z0-9_]*(?:\.[A-Za-z_][A-Za-z0-9_]*)*", text)):
        parts = ident.split(".")
        if parts[0] in reserved:
            continue
        cur = ns
        for i, p in enumerate(parts):
            last = i == len(parts) - 1
            if isinstance(cur, dict):
                nxt = cur.get(p)
            else:
                nxt = getattr(cur, p, None)
            if nxt is None:
                nxt = type("D", (), {"__ident__": ident}) if last else _NS()
                if last:
                    nxt.__qualname__ = ident
                if isinstance(cur, dict):
                    cur[p] = nxt
                else:
                    setattr(cur, p, nxt)
            cur = nxt
    try:
        code = compile(f"def c18_probe_fn__(x: {text}): pass\n", "<ann>", "exec")
    except (SyntaxError, ValueError):
        return None
    try:
        exec(code, ns)
        h = typing.get_type_hints(ns["c18_probe_fn__"], ns, {})["x"]
    except Exception:  # noqa  NameError / TypeError / SyntaxError inside a string annotation
        return None
    return _canon_py(h)


def _canon_py(t):
    try:
        return _canon_type(t, "\0none")
    except Exception:  # noqa  e.g. a bare typing.List without arguments (only reachable from damaged text)
        return [["other", repr(t)]]


def cv_alts(h, name_of):
    """canonical alternatives list -> cv literal (same shape as Model.Typing.cv_of_sty)"""
    out = []
    for a in h:
        k = a[0]
        if k == "none":
            out.append("(CL [CZ 0])")
        elif k == "cls":
            out.append(f"(CL [CZ 1; {cb(name_of(a[1], a[2]))}])")
        elif k == "list":
            out.append(f"(CL [CZ 2; {cv_alts(a[1], name_of)}])")
        elif k == "dict":
            out.append(f"(CL [CZ 3; {cv_alts(a[1], name_of)}; {cv_alts(a[2], name_of)}])")
        elif k in ("iterable", "asynciterable", "asynciterator"):
            tag = {"iterable": 4, "asynciterable": 5, "asynciterator": 6}[k]
            out.append(f"(CL [CZ {tag}; {cv_alts(a[1], name_of)}])")
        else:
            out.append(f"(CL [CZ 99; {cb(repr(a))}])")
    return "(CL [" + "; ".join(out) + "])"


# ======================================================================================
# stage A + B
# ======================================================================================
def stage_compilers(ctx):
    rng = ctx.rng
    n = 120 if not ctx.thorough else 900
    asts = []
    # systematic: every operator over every leaf kind, two levels
    leaves = [("name", "int"), ("ref", "Foo"), ("ref", "_p__.Bar"), ("name", "builtins.int")]
    ops1 = ["optional", "list", "iterable", "async_iterable", "async_iterator"]
    for l in leaves:
        asts.append(l)
        for o in ops1:
            asts.append((o, l))
            for o2 in ("optional", "list"):
                asts.append((o2, (o, l)))
        asts.append(("dict", ("name", "str"), l))
        asts.append(("dict", l, ("name", "str")))
        asts.append(("union", [l, ("name", "None0")]))
        asts.append(("union", [l]))
        asts.append(("optional", ("union", [l, ("ref", "Q")])))
        asts.append(("union", [("optional", l), ("list", l)]))
        asts.append(("list", ("dict", ("name", "int"), ("optional", l))))
    asts.append(("union", []))
    asts.append(("union", [("async_iterable", ("name", "M")), ("iterable", ("name", "M"))]))
    for _ in range(n):
        asts.append(rand_ty(rng, rng.choice([1, 2, 3, 4]), wf_for=rng.random() < 0.6))
    pairs, descr = [], []
    texts = []
    for t in asts:
        ctx.seen_nontrivial(("ast", repr(t)))
        ctx.count("ast:" + t[0])
        for opt in ("direct", "root", "310"):
            c = T1.compiler_for(opt)
            try:
                real = real_print(c, t)
                lines = list(c.import_lines())
            except Exception as e:  # noqa
                ctx.fail("oracle", "a typing compiler method raised", cls="compiler-raised", input={"ast": t, "compiler": opt}, error=repr(e))
                continue
            pairs.append((f"CB (print {COMP[opt]} {coq_ty(t)})", cb(real)))
            descr.append(("print", opt, t, real))
            pairs.append((f"cstrs (import_lines {COMP[opt]} (ty_adds {COMP[opt]} {coq_ty(t)}))", lib.cl([cb(x) for x in lines])))
            descr.append(("import_lines", opt, t, lines))
            texts.append((opt, t, real))
    ctx.cov["evaluations"] += len(pairs)
    bad = compare(ctx, "c18a", IMPORTS_MODEL, pairs)
    ctx.cov["disagreements_checked"] += len(pairs)
    for i in bad[:10]:
        ctx.fail("corr", f"model and implementation disagree on {descr[i][0]}", cls="compiler-text", input={"compiler": descr[i][1], "ast": descr[i][2]},
                 observed_impl=descr[i][3], expected_model=lib.coq_eval(ctx, IMPORTS_MODEL, pairs[i][0]),
                 theorem_or_correspondence="T2 Model/Typing.v print/import_lines <-> plugin/typing_compiler.py")
    ctx.sample({"stage": "A", "ast": asts[40], "texts": [x[2] for x in texts if x[1] is asts[40]]})

    # ---- B: denote vs CPython
    pairs, descr = [], []
    seen = set()

    def add(text, why):
        if text in seen:
            return
        seen.add(text)
        h = py_denote(text)
        exp = lib.CN if h is None else cv_alts(h, lambda mod, name: name)
        pairs.append((f"copt cv_py_norm (denote {cs(text)})", exp))
        descr.append((text, why, h))
        ctx.count("denote:" + ("accepted" if h is not None else "rejected"))

    oneway = []
    TYPING_NAMES = {"Optional", "List", "Dict", "Union", "Iterable", "AsyncIterable", "AsyncIterator"}

    def ast_wf(t):
        """shapes the plugin can produce: a union has at least one member (an empty one prints as nothing, and CPython then
        reads `dict[str, ]` as `dict[str]` - a statement about Python's trailing comma, not about the compilers)"""
        if t[0] == "union":
            return bool(t[1]) and all(ast_wf(x) for x in t[1])
        return all(ast_wf(x) for x in t[1:] if isinstance(x, tuple))

    for opt, t, real in texts:
        if not ast_wf(t):
            # text printed from an ill-formed AST: one-way only (what denote accepts, CPython must read the same way)
            for txt in (real, '"' + real + '"', '"' + real.strip('"') + '"'):
                if txt not in seen:
                    seen.add(txt)
                    oneway.append(txt)
            continue
        add(real, "printer output")
        add('"' + real + '"', "KQuote site")
        add('"' + real.strip('"') + '"', "KQuoteStrip site")
        # single-character damage: CPython must reject whatever denote rejects is NOT required; but whatever
        # denote accepts must evaluate to the same type in CPython
        if len(real) > 3 and rng.random() < 0.5:
            i = rng.randrange(len(real))
            for mut in (real[:i] + real[i + 1:], real[:i] + rng.choice('"[],|') + real[i:]):
                # (not a statement about Python keywords: a deletion can turn `int` into `in`)
                # (nor about which names the typing module has: the denotation takes any dotted name for a class name,
                #  CPython looks `typing.Async` up in the real module)
                if mut not in seen and not (set(re.findall(r"[A-Za-z_]+", mut)) & set(keyword.kwlist)) \
                        and set(re.findall(r"typing\.([A-Za-z_0-9]*)", mut)) <= TYPING_NAMES:
                    seen.add(mut)
                    oneway.append(mut)
    ctx.cov["evaluations"] += len(pairs)
    bad = compare(ctx, "c18b", IMPORTS_MODEL, pairs)
    for i in bad[:10]:
        ctx.fail("corr", "the denotation disagrees with CPython's evaluation of the same annotation text", cls="denote-vs-cpython",
                 input={"text": descr[i][0], "origin": descr[i][1]}, observed_impl=descr[i][2],
                 expected_model=lib.coq_eval(ctx, IMPORTS_MODEL, pairs[i][0]),
                 theorem_or_correspondence="T3 Model/Typing.v denote <-> typing.get_type_hints")
    # one-way on damaged text: encode CPython's verdict so that (model None) always matches
    pairs2, d2 = [], []
    for mut in oneway:
        h = py_denote(mut)
        exp = lib.CN if h is None else cv_alts(h, lambda mod, name: name)
        pairs2.append((f"match denote {cs(mut)} with None => {exp} | Some s => cv_py_norm s end", exp))
        d2.append((mut, h))
    ctx.cov["evaluations"] += len(pairs2)
    bad = compare(ctx, "c18b2", IMPORTS_MODEL, pairs2)
    ctx.count("denote:damaged", len(pairs2))
    for i in bad[:10]:
        ctx.fail("corr", "the denotation accepts damaged annotation text with a type CPython does not give it", cls="denote-vs-cpython-damaged",
                 input={"text": d2[i][0]}, observed_impl=d2[i][1], expected_model=lib.coq_eval(ctx, IMPORTS_MODEL, f"denote {cs(d2[i][0])}"),
                 theorem_or_correspondence="T3 Model/Typing.v denote <-> typing.get_type_hints")
    ctx.sample({"stage": "B", "text": descr[7][0], "cpython": descr[7][2]})


# ======================================================================================
# stage C: translation validation
# ======================================================================================
def type_identity(tn, types_pkg):
    """proto full name -> (module path relative to the root package | betterproto lib module, class name)"""
    from betterproto.compile.naming import pythonize_class_name

    if tn.startswith(".google.protobuf."):
        return ("betterproto.lib.google.protobuf", tn.rsplit(".", 1)[1])
    pkg = types_pkg[tn]
    rel = tn[len(pkg) + 2:]
    return (pkg, pythonize_class_name("_" + rel.replace(".", "_")))


def ref_of(tn, pkg):
    """(Coq gref literal, reference string without quotes for the standard variant, is_google)"""
    from betterproto.compile.importing import get_type_reference
    from betterproto.plugin.typing_compiler import DirectImportTypingCompiler

    if tn.startswith(".google.protobuf."):
        g = tn.rsplit(".", 1)[1]
        if g in G.WRAPPERS:
            return f"(RWrapper {cs(g)})", None
        if g == "Duration":
            return "RDuration", None
        if g == "Timestamp":
            return "RTimestamp", None
        return f"(RGoogle {cs(g)})", None
    r = get_type_reference(package=pkg, imports=set(), source_type=tn, typing_compiler=DirectImportTypingCompiler(), pydantic=False)
    return f"(RLocal {cs(r.strip(chr(34)))})", r.strip('"')


def coq_ftype(kind, tn, pkg):
    if kind in ("enum", "message"):
        lit, _ = ref_of(tn, pkg)
        return f"{{| ft_type := {PTYPE[kind]}; ft_ref := Some {lit} |}}"
    return f"{{| ft_type := {PTYPE[kind]}; ft_ref := None |}}"


def py_type_text(kind, tn, pkg):
    """text of FieldCompiler.py_type under the direct compiler (only used for the use_builtins rule)"""
    if kind in ("enum", "message"):
        return "<ref>"
    return PYSCALAR.get(kind, "int")


def message_fields(m, pkg):
    """[(field dict, py_name, Coq fdesc literal)] in declaration order, with FieldCompiler.use_builtins replicated"""
    from betterproto.compile.naming import pythonize_field_name

    bnames = G.builtin_names()
    builtins_types = set()
    out = []
    for f in m["fields"]:
        py_name = pythonize_field_name(f["name"])
        ptext = py_type_text(f["kind"], f["type_name"], pkg)
        flag = f["label"] != "map" and (ptext in builtins_types or (ptext == py_name and py_name in bnames))
        if py_name in bnames:
            builtins_types.add(py_name)
        lab = {"single": "LSingle", "optional": "LOptional", "repeated": "LRepeated"}.get(f["label"])
        if f["label"] == "oneof":
            lab = f"(LOneof {cs(f['oneof'])})"
        elif f["label"] == "map":
            lab = f"(LMap {coq_ftype(f['map_key'], None, pkg)})"
        lit = (f"{{| fd_name := {cs(py_name)}; fd_number := ({f['number']})%Z; fd_type := {coq_ftype(f['kind'], f['type_name'], pkg)}; "
               f"fd_label := {lab}; fd_builtins := {lib.coq_bool(flag)} |}}")
        out.append((f, py_name, lit, flag))
    return out


def expected_hint_names(f, pkg, types_pkg, flag):
    """(module, class) -> the name the model's denotation uses for it, for one field"""
    names = {("builtins", "int"): "int", ("builtins", "float"): "float", ("builtins", "bool"): "bool",
             ("builtins", "str"): "str", ("builtins", "bytes"): "bytes",
             ("datetime", "datetime"): "datetime", ("datetime", "timedelta"): "timedelta"}
    if flag:
        names = {k: ("builtins." + v if k[0] == "builtins" else v) for k, v in names.items()}
    return names


def run_variants(ctx, schemas, tag):
    """generate + import the six variants of a batch of schemas; returns (sources, worker outputs)"""
    from betterproto.compile.naming import pythonize_class_name, pythonize_method_name

    files = {}
    for s in schemas:
        files.update(s["files"])
    base = ctx.work
    PU.shim_dir(base)

    def gen(v):
        try:
            return PU.generate(base, files, f"c18{tag}_{vname(v)}", vopts(v))
        except Exception as e:  # noqa
            return 99, f"{type(e).__name__}: {e}", None

    with ThreadPoolExecutor(6) as ex:
        gens = list(ex.map(gen, VARIANTS))
    types_pkg, typemap, types, services, values, packages = {}, {}, {}, {}, [], []
    for s in schemas:
        for pname, p in s["packages"].items():
            packages.append(pname)
            if p["services"]:
                services[pname] = {pythonize_class_name(sv["name"]): [pythonize_method_name(m["name"]) for m in sv["methods"]]
                                   for sv in p["services"]}
        for full, (kd, pkg, d) in G._all_types(s["packages"]).items():
            types_pkg[full] = pkg
            typemap[full] = list(type_identity(full, {full: pkg}))
            types[full] = kd
        for case in s.get("values", []):
            values.append(case)

    def work(v):
        root = f"c18{tag}_{vname(v)}"
        tm = dict(typemap)
        for g in G.GOOGLE_IMPORT:
            tm[".google.protobuf." + g] = ["betterproto.lib.pydantic.google.protobuf" if v[1] else "betterproto.lib.google.protobuf", g]
        job = {"root": root, "pydantic": v[1], "packages": packages, "typemap": tm, "types": types, "services": services,
               "values": values, "out": os.path.join(base, root + ".out.json")}
        jp = os.path.join(base, root + ".job.json")
        json.dump(job, open(jp, "w"))
        try:
            rc, out = PU.run_in_subprocess(base, f"from harness.props import c18; c18.worker_main({jp!r})", timeout=900)
        except Exception as e:  # noqa
            return None, f"{type(e).__name__}: {e}"
        if rc != 0 or not os.path.exists(job["out"]):
            return None, out[-2000:]
        return json.load(open(job["out"])), ""

    todo = [v for v, g in zip(VARIANTS, gens) if g[0] == 0]
    with ThreadPoolExecutor(6) as ex:
        outs = dict(zip([vname(v) for v in todo], ex.map(work, todo)))
    return gens, outs, types_pkg, values


def schema_of(schemas, pkg):
    for s in schemas:
        if pkg in s["packages"]:
            return s
    return None


def stage_translation(ctx, schemas, tag):
    from betterproto.compile.importing import get_type_reference
    from betterproto.compile.naming import pythonize_class_name, pythonize_method_name, pythonize_enum_member_name
    from betterproto.plugin.typing_compiler import DirectImportTypingCompiler

    gens, outs, types_pkg, values = run_variants(ctx, schemas, tag)
    pairs, descr = [], []

    def add(model, expected, d):
        pairs.append((model, expected))
        descr.append(d)

    def small_input(pkg, v, **kw):
        s = schema_of(schemas, pkg)
        d = {"files": s["files"] if s else {}, "options": vopts(v), "package": pkg}
        if s:
            # everything needed to re-run this schema alone (./check C18 --replay <file>)
            d["schema"] = {"id": s["id"], "files": s["files"], "packages": s["packages"],
                           "values": [kw["value"]] if "value" in kw else s.get("values", [])[:6]}
        d.update(kw)
        return d

    for v, g in zip(VARIANTS, gens):
        if g[0] != 0:
            ctx.fail("oracle", "the plugin fails on a schema protoc accepts", cls="plugin-error",
                     input={"files": {k: t for s in schemas for k, t in s["files"].items()}, "options": vopts(v)}, observed=g[1][-1500:])
    # ---------------------------------------------------------------- texts: every field line and every site
    for v, g in zip(VARIANTS, gens):
        if g[0] != 0:
            continue
        vn = vname(v)
        out_dir = g[2]
        for s in schemas:
            for pkg, p in s["packages"].items():
                path = os.path.join(out_dir, *pkg.split("."), "__init__.py")
                try:
                    src = open(path).read()
                    ex = T1.extract(src)["classes"]
                except Exception as e:  # noqa
                    ctx.fail("oracle", "generated module missing or not even tokenisable", cls="module-unreadable",
                             input=small_input(pkg, v), observed=repr(e))
                    continue
                hints = outs.get(vn, (None, ""))[0]
                for full, pk, m in G.all_messages(s):
                    if pk != pkg:
                        continue
                    cname = type_identity(full, types_pkg)[1]
                    got = ex.get(cname)
                    if got is None:
                        ctx.fail("oracle", "a message of the schema has no class in the generated module", cls="class-missing",
                                 input=small_input(pkg, v, message=full))
                        continue
                    rows = None
                    if hints and full in hints["classes"] and "rows" in hints["classes"][full]:
                        rows = {r["number"]: r for r in hints["classes"][full]["rows"]}
                    fl = message_fields(m, pkg)
                    if len(fl) != len(got["fields"]):
                        ctx.fail("oracle", "generated class does not have one line per schema field", cls="field-count",
                                 input=small_input(pkg, v, message=full), observed=[x[0] for x in got["fields"]])
                        continue
                    for (f, py_name, lit, flag), (gname, gann, gval) in zip(fl, got["fields"]):
                        ctx.count(f"field:{f['label']}:{f['kind']}")
                        ctx.seen_nontrivial(("field", f["label"], f["kind"], (f["type_name"] or "").split(".")[1:2] == ["google"], f.get("map_key"), vn))
                        add(f"cstr (field_string {coq_opts(v)} {lit})", cb(f"{gname}: {gann} = {gval}"),
                            ("field_string", vn, pkg, full, f["name"]))
                        add(f"cbool (match annotation_ty {lib.coq_bool(v[1])} {lit} with Some t => in_domain {COMP[v[0]]} KRaw t | None => false end)",
                            lib.cbool(True), ("field in the theorem's domain", vn, pkg, full, f["name"]))
                        add(f"cv_of_meta (field_meta {coq_opts(v)} {lit})",
                            None if rows is None or f["number"] not in rows else _meta_cv(rows[f["number"]]),
                            ("field_meta", vn, pkg, full, f["name"]))
                        if rows is not None and f["number"] in rows:
                            # the denotation of the text actually generated = the type the runtime resolved
                            idn = {}
                            for kd, tn in ((f["kind"], f["type_name"]),):
                                if kd in ("enum", "message"):
                                    lit_r, refs = ref_of(tn, pkg)
                                    ident = type_identity(tn, types_pkg)
                                    if refs is None:
                                        g_ = tn.rsplit(".", 1)[1]
                                        refs = ("betterproto_lib_pydantic_google_protobuf." if v[1] else "betterproto_lib_google_protobuf.") + g_
                                    idn[ident] = refs
                            base_names = expected_hint_names(f, pkg, types_pkg, flag)

                            def name_of(mod, nm, idn=idn, base_names=base_names):
                                return idn.get((mod, nm)) or base_names.get((mod, nm)) or f"?{mod}.{nm}"

                            add(f"copt cv_py_norm (denote {cs(gann)})", cv_alts(rows[f["number"]]["hint"], name_of),
                                ("denote=runtime hint", vn, pkg, full, f["name"]))
                # services
                for sv in p["services"]:
                    sname = pythonize_class_name(sv["name"])
                    stub, basec = ex.get(sname + "Stub"), ex.get(sname + "Base")
                    if stub is None or basec is None:
                        ctx.fail("oracle", "a service of the schema has no Stub/Base class in the generated module", cls="class-missing",
                                 input=small_input(pkg, v, service=sv["name"]))
                        continue
                    if sv["methods"]:
                        add(f"cstr (site_text template_sites {COMP[v[0]]} SMapping [] [])", copt_cb(basec["methods"].get("__mapping__", {}).get("return")),
                            ("site SMapping", vn, pkg, sv["name"], ""))
                    for meth in sv["methods"]:
                        pm = pythonize_method_name(meth["name"])
                        tin = get_type_reference(package=pkg, imports=set(), source_type=meth["input"], typing_compiler=DirectImportTypingCompiler(),
                                                 unwrap=False, pydantic=v[1]).strip('"')
                        tout = get_type_reference(package=pkg, imports=set(), source_type=meth["output"], typing_compiler=DirectImportTypingCompiler(),
                                                  unwrap=False, pydantic=v[1]).strip('"')
                        cs_, ss_ = meth["client_streaming"], meth["server_streaming"]
                        ctx.count(f"method:{'S' if cs_ else 'U'}{'S' if ss_ else 'U'}")
                        ctx.seen_nontrivial(("method", cs_, ss_, meth["input"].startswith(".google"), meth["output"].startswith(".google"), vn))
                        sm, bm = stub["methods"].get(pm), basec["methods"].get(pm)
                        if sm is None or bm is None:
                            ctx.fail("oracle", "a method of the schema is missing from Stub/Base", cls="class-missing",
                                     input=small_input(pkg, v, service=sv["name"], method=meth["name"]))
                            continue

                        def named(mm, nm):
                            for pn, ann in mm["params"]:
                                if pn == nm:
                                    return ann
                            return None

                        sites = [("SStubReqIter" if cs_ else "SStubReq", sm["params"][1][1] if len(sm["params"]) > 1 else None),
                                 ("SStubTimeout", named(sm, "timeout")), ("SStubDeadline", named(sm, "deadline")),
                                 ("SStubMetadata", named(sm, "metadata")),
                                 ("SStubRetStream" if ss_ else "SStubRet", sm["return"]),
                                 ("SBaseReqIter" if cs_ else "SBaseReq", bm["params"][1][1] if len(bm["params"]) > 1 else None),
                                 ("SBaseRetStream" if ss_ else "SBaseRet", bm["return"])]
                        for site, text in sites:
                            add(f"cstr (site_text template_sites {COMP[v[0]]} {site} {cs(tin)} {cs(tout)})", copt_cb(text),
                                ("site " + site, vn, pkg, sv["name"], meth["name"]))
                            ctx.count("site:" + site)
    todo = [(m, e, d) for (m, e), d in zip(pairs, descr) if e is not None]
    imports = IMPORTS
    if not have_proofs():
        todo = [x for x in todo if "in_domain" not in x[0]]
        imports = IMPORTS_MODEL
        ctx.notes.append("Proofs/TypingP.vo not available: the theorem-domain check of generated annotations was skipped")
    ctx.cov["evaluations"] += len(todo)
    bad = compare(ctx, f"c18c{tag}", imports, [(m, e) for m, e, _ in todo])
    ctx.cov["disagreements_checked"] += len(todo)
    reported = set()
    for i in bad:
        m, e, d = todo[i]
        if (d[0], d[1]) in reported or len(reported) > 12:
            continue
        reported.add((d[0], d[1]))
        v = [x for x in VARIANTS if vname(x) == d[1]][0]
        ctx.fail("corr", f"model and generated code disagree on {d[0]}", cls="tv:" + d[0].split(" ")[0], input=small_input(d[2], v, where=list(d[2:])),
                 observed_impl=e, expected_model=lib.coq_eval(ctx, imports, m),
                 theorem_or_correspondence="T2 translation validation Model/Typing.v <-> generated module")
    if todo:
        ctx.sample({"stage": "C", "case": list(todo[len(todo) // 3][2]), "model_expr": todo[len(todo) // 3][0][:300], "impl": todo[len(todo) // 3][1][:300]})

    # ---------------------------------------------------------------- oracle: imports, tables, enums, values
    ref_v = VARIANTS[0]
    ref = outs.get(vname(ref_v), (None, "no output"))[0]
    for v in VARIANTS:
        vn = vname(v)
        d, err = outs.get(vn, (None, "plugin failed"))
        if d is None:
            if any(g[0] == 0 for g, vv in zip(gens, VARIANTS) if vv == v):
                ctx.fail("oracle", "the import worker of a variant crashed", cls="worker-crash", input={"options": vopts(v)}, observed=err[-1500:])
            continue
        for pkg, st in d["packages"].items():
            ctx.count("import:" + ("ok" if st == "ok" else "failed"))
            if st != "ok":
                sch = schema_of(schemas, pkg)
                parts = pkg.split(".")      # importing a package imports its ancestors first
                alias = sorted({a for i in range(1, len(parts) + 1) for a in G.alias_named_fields(sch, ".".join(parts[:i]))}) if sch else []
                k32 = bool(alias) and v[1] and "Placeholder" in str(st)
                ctx.fail("oracle", "a generated package fails to import under a supported option combination"
                         + (f" (pydantic variant, fields {alias} are called like the import alias of their type's package)" if k32 else ""),
                         cls="K32-field-named-like-import-alias-pydantic" if k32 else f"import-failure:{v[0]}",
                         input=small_input(pkg, v), observed=st)
        for full, c in d["classes"].items():
            if "error" in c:
                ctx.fail("oracle", "a generated message class cannot be introspected / instantiated", cls="class-error",
                         input=small_input(types_pkg[full], v, message=full), observed=c["error"])
        for key, sv in d["services"].items():
            if "error" in sv:
                ctx.fail("oracle", "the signatures of a generated Stub/Base class do not resolve", cls="service-error",
                         input=small_input(key.split(":")[0], v, service=key), observed=sv["error"])
        # enums against the schema
        for s in schemas:
            for full, pk, e in G.all_enums(s):
                got = d["enums"].get(full)
                if got is None:
                    continue
                want = [[pythonize_enum_member_name(n, _flat_name(full, pk)), val] for n, val in e["values"]]
                ctx.count("enum")
                if got != want:
                    ctx.fail("oracle", "enum members differ from the schema", cls="enum-diff", input=small_input(pk, v, enum=full),
                             observed=got, expected=want)
        if ref is None or v == ref_v:
            continue
        # pairwise with the default configuration
        for full, c in d["classes"].items():
            r = ref["classes"].get(full)
            if "rows" not in c or r is None or "rows" not in r:
                continue
            ctx.count("class-table-compared")
            for a, b in zip(c["rows"], r["rows"]):
                a2 = dict(a)
                if v[1] and a["group"] is not None:
                    # the one permitted difference: optional=True on oneof members (and the Optional[...] hint that goes with it)
                    if a["optional"] is not True:
                        ctx.fail("oracle", "pydantic variant: oneof member without optional=True", cls="table-diff",
                                 input=small_input(types_pkg[full], v, message=full), observed=a)
                    a2["optional"] = b["optional"]
                    if a["hint"] == b["hint"] + [["none"]]:
                        a2["hint"] = b["hint"]
                if a2 != b or len(c["rows"]) != len(r["rows"]):
                    ctx.fail("oracle", "field tables differ between option variants", cls="table-diff",
                             input=small_input(types_pkg[full], v, message=full), observed=a, expected=b)
                    break
            if c.get("default_bytes") != r.get("default_bytes"):
                ctx.fail("oracle", "default instance encodes differently between option variants", cls="value-diff",
                         input=small_input(types_pkg[full], v, message=full))
            if bool(c.get("pydantic")) != v[1]:
                ctx.fail("oracle", "pydantic_dataclasses option does not decide whether the class is a pydantic dataclass", cls="table-diff",
                         input=small_input(types_pkg[full], v, message=full))
        for key, sv in d["services"].items():
            r = ref["services"].get(key)
            if r is None or "error" in sv or "error" in r:
                continue
            ctx.count("service-compared")
            if _svc_norm(sv) != _svc_norm(r):
                ctx.fail("oracle", "resolved Stub/Base signatures differ between option variants", cls="service-diff",
                         input=small_input(key.split(":")[0], v, service=key), observed=_svc_norm(sv), expected=_svc_norm(r))
        for case, a, b in zip(values, d["values"], ref["values"]):
            pkg = types_pkg[case["cls"]]
            if d["packages"].get(pkg) != "ok" or ref["packages"].get(pkg) != "ok":
                continue
            ctx.count("value-case-compared")
            ctx.cov["evaluations"] += 1
            if case["fields"]:
                ctx.seen_nontrivial(("value", case["cls"], json.dumps(case["fields"], sort_keys=True)[:200], vn))
            if a.get("construct") != b.get("construct"):
                neg = case.get("neg_enum") and v[1]
                ctx.fail("oracle", "the pydantic variant rejects a negative enum number that the default configuration encodes" if neg
                         else "a value constructible under the default configuration is rejected under another option combination",
                         cls="pydantic-negative-enum" if neg else "construct-diff",
                         input=small_input(pkg, v, value=case), observed=a.get("detail", a), expected=b.get("construct"))
                continue
            for k in ("bytes", "json", "len", "reparse_bytes", "reparse_json"):
                if a.get(k) != b.get(k):
                    ctx.fail("oracle", f"equal field values give different {k} under different option combinations", cls="value-diff",
                             input=small_input(pkg, v, value=case), observed=str(a.get(k))[:600], expected=str(b.get(k))[:600])
                    break
            else:
                fa, fb = a.get("from_json_bytes"), b.get("from_json_bytes")
                if fa != fb and not str(fa).startswith("ERR") and not str(fb).startswith("ERR"):
                    ctx.fail("oracle", "from_json(to_json(x)) encodes differently under different option combinations", cls="value-diff",
                             input=small_input(pkg, v, value=case), observed=fa, expected=fb)
                elif fa != fb:
                    ctx.count("from_json-differs-by-error(C04)")


def _flat_name(full, pkg):
    rel = full[len(pkg) + 2:]
    return "_" + rel.replace(".", "_")


def _svc_norm(sv):
    """parameter names of google-typed requests carry the (variant dependent) alias: compare by position"""
    out = {}
    for m, sig in sv.items():
        if isinstance(sig, dict) and m != "__mapping__":
            out[m] = [sig[k] for k in sig]
        else:
            out[m] = sig
    return out


def _meta_cv(r):
    mt = r["map_types"]
    return lib.cl([lib.cz(r["number"]), cb(r["proto_type"]),
                   lib.CN if not mt else lib.cl([cb(mt[0]), cb(mt[1])]),
                   copt_cb(r["group"]), copt_cb(r["wraps"]), lib.cbool(r["optional"])])


# ======================================================================================
# stage D: option strings
# ======================================================================================
def stage_options(ctx):
    params = ["", "typing.direct", "typing.root", "typing.310", "pydantic_dataclasses",
              "typing.direct,pydantic_dataclasses", "typing.root,pydantic_dataclasses", "typing.310,pydantic_dataclasses",
              "pydantic_dataclasses,typing.310", "pydantic_dataclasses,typing.root", "INCLUDE_GOOGLE,typing.root",
              "typing.bogus", "typing.", "typing.direct,typing.root", "typing.310,typing.310", "typing.root,,pydantic_dataclasses",
              "pydantic_dataclasses2", "xtyping.310", "typing.Root", " typing.root", "typing.root "]
    pairs, descr = [], []
    for p in params:
        try:
            files = T1.run_plugin(p)
            src = files["c18probe/__init__.py"]
            ex = T1.extract(src)["classes"]
            ann = ex["Resp"]["fields"][0][1]
            comp = {"List[str]": 0, "typing.List[str]": 1, '"list[str]"': 2}.get(ann)
            pyd = "from pydantic.dataclasses import dataclass" in src
            exp = f"(CL [{lib.cz(comp if comp is not None else 99)}; {lib.cbool(pyd)}])"
            obs = (ann, pyd)
        except ValueError as e:
            exp, obs = lib.ce("EOther"), repr(e)
        except Exception as e:  # noqa
            ctx.fail("oracle", "generate_code raised an unexpected exception on an option string", cls="options", input={"parameter": p}, observed=repr(e))
            continue
        pairs.append((f"cv_of_options (parse_options {cs(p)})", exp))
        descr.append((p, obs))
        ctx.count("option-string")
    ctx.cov["evaluations"] += len(pairs)
    bad = compare(ctx, "c18d", IMPORTS_MODEL, pairs)
    for i in bad[:5]:
        ctx.fail("corr", "option parsing: model and generate_code disagree", cls="options", input={"parameter": descr[i][0]},
                 observed_impl=descr[i][1], expected_model=lib.coq_eval(ctx, IMPORTS_MODEL, pairs[i][0]),
                 theorem_or_correspondence="T2 Model/Typing.v parse_options <-> plugin/parser.py")


# ======================================================================================
# stage E: the two bundled google.protobuf libraries (anchor lib/pydantic/google/protobuf/__init__.py)
# ======================================================================================
def stage_bundled_libs(ctx):
    """the pre-generated pydantic variant of betterproto.lib.google.protobuf must define the same classes with the same
    field metadata (optional=True on oneof members being the one permitted difference) and the same enum members"""
    import dataclasses
    import importlib
    import betterproto

    # classes of the well-known types a user schema refers to (any, api, duration, empty, field_mask, source_context,
    # struct, timestamp, type, wrappers); the rest of the module mirrors descriptor.proto / plugin.proto
    wkt = {"Any", "Api", "Method", "Mixin", "Duration", "Empty", "FieldMask", "SourceContext", "Struct", "Value", "ListValue",
           "NullValue", "Timestamp", "Type", "Field", "Enum", "EnumValue", "Option", "Syntax", "FieldKind", "FieldCardinality",
           "DoubleValue", "FloatValue", "Int64Value", "UInt64Value", "Int32Value", "UInt32Value", "BoolValue", "StringValue",
           "BytesValue"}
    stale = []

    def report(n, what, **kw):
        if n in wkt:
            ctx.fail("oracle", what, cls="bundled-lib", input={"class": n}, **kw)
        else:
            stale.append(n)

    for sub in ("", ".compiler"):
        try:
            std = importlib.import_module("betterproto.lib.std.google.protobuf" + sub)
            pyd = importlib.import_module("betterproto.lib.pydantic.google.protobuf" + sub)
        except Exception as e:  # noqa
            if sub:
                # plugin.proto's messages in pydantic flavour (pydantic v1 API at the end of the file): never referenced by
                # generated code unless a schema imports google/protobuf/compiler/plugin.proto -- outside C18's schemas
                ctx.notes.append(f"betterproto.lib.pydantic.google.protobuf{sub} does not import under the installed pydantic: {e!r}")
            else:
                ctx.fail("oracle", "a bundled google.protobuf library does not import", cls="bundled-lib", input={"module": sub}, observed=repr(e))
            continue
        names = sorted(n for n, o in vars(std).items() if isinstance(o, type) and o.__module__ == std.__name__)
        for n in names:
            a, b = getattr(std, n), getattr(pyd, n, None)
            ctx.count("bundled-class")
            if b is None:
                report(n, "class of the standard bundled library missing from the pydantic one")
                continue
            if issubclass(a, betterproto.Message):
                ra = [(f.name, dataclasses.asdict(f.metadata["betterproto"])) for f in dataclasses.fields(a)]
                rb = [(f.name, dataclasses.asdict(f.metadata["betterproto"])) for f in dataclasses.fields(b)]
                for (na, ma), (nb, mb) in zip(ra, rb):
                    if na == "oneof_index":
                        # plugin.models.monkey_patch_oneof_index() (run in this process by stage D) edits the standard
                        # library's metadata of this field in place
                        ma, mb = dict(ma, group=None), dict(mb, group=None)
                    if mb.get("group") is not None:
                        mb = dict(mb, optional=ma.get("optional"))
                    if (na, ma) != (nb, mb):
                        report(n, "bundled google.protobuf libraries (standard / pydantic) disagree on a field of a well-known type",
                               observed=[nb, mb], expected=[na, ma])
                        break
                else:
                    if len(ra) != len(rb):
                        report(n, "bundled google.protobuf libraries disagree on the number of fields of a well-known type")
            elif issubclass(a, betterproto.Enum):
                if [(m.name, int(m.value)) for m in a] != [(m.name, int(m.value)) for m in b]:
                    report(n, "bundled google.protobuf libraries disagree on an enum of a well-known type")
        ctx.cov["evaluations"] += len(names)
    if stale:
        ctx.notes.append("the pre-generated pydantic google.protobuf library mirrors an older descriptor.proto than the standard one; "
                         "classes that differ (not well-known types, outside the schemas C18 quantifies over): " + ", ".join(sorted(set(stale))))


# ======================================================================================
def load_corpus():
    d = os.path.join(lib.VERIF, "corpus")
    out = []
    if os.path.isdir(d):
        for fn in sorted(os.listdir(d)):
            if fn.startswith("C18") and fn.endswith(".json"):
                try:
                    out.append(json.load(open(os.path.join(d, fn))))
                except Exception:  # noqa
                    pass
    return out


def corpus_schema(entry, sid):
    """corpus entries are stored with the placeholder package root `ROOT`; instantiate it"""
    txt = json.dumps(entry["schema"]).replace("ROOT", sid)
    s = json.loads(txt)
    s["id"] = sid
    return s


class _Sub:
    """view of the context with its own random stream (stages A/B/D run next to the protoc calls of stage C)"""

    def __init__(self, ctx, seed):
        import random
        self.__dict__["_ctx"] = ctx
        self.__dict__["rng"] = random.Random(seed)

    def __getattr__(self, k):
        return getattr(self._ctx, k)


def compare(ctx, name, imports, pairs):
    """lib.coq_compare, retried when a concurrent build of another tree swapped a .vo under us"""
    for attempt in range(3):
        try:
            return lib.coq_compare(ctx, f"{name}_{attempt}" if attempt else name, imports, pairs)
        except RuntimeError as e:
            transient = "inconsistent assumptions" in str(e) or "Cannot find a physical path" in str(e) or "Compiled library" in str(e)
            if not transient or attempt == 2:
                raise
            ctx.notes.append("compiled model changed under the comparison (concurrent build); rebuilding and retrying")
            ensure_tables(ctx, force=True)


def ensure_tables(ctx, force=False):
    """setup.sh regenerates coq/gen/*.v outside the build lock, so a concurrent check of another tree can replace
    C18Tables.v between our generation and our build.  Make sure what was compiled is the table of the tree under test."""
    for attempt in range(3):
        try:
            want = T1.generate()
        except Exception as e:  # noqa  fail closed: the generator cannot read this tree
            ctx.notes.append(f"gen_c18 cannot read the tree under test: {e!r}")
            return
        try:
            have = open(T1.OUT).read()
            vo = os.path.join(lib.COQ, "gen", "C18Tables.vo")
            fresh = os.path.getmtime(vo) >= os.path.getmtime(T1.OUT)
        except OSError:
            have, fresh = None, False
        if have == want and fresh and not force:
            return
        force = False
        ctx.notes.append("coq/gen/C18Tables.v was regenerated from another tree by a concurrent run; rebuilding")
        # regenerate and build while holding the build lock (setup.sh generates before it takes the lock)
        cmd = ["flock", os.path.join(lib.COQ, ".build.lock"), "bash", "-c",
               f'PYTHONPATH="{lib.REPO}/src:{lib.VERIF}" {lib.PY} -W ignore harness/gen_c18.py && '
               f'timeout 1500 make -C coq -j{lib.JOBS} Properties/C18.vo']
        rc, out = lib.run(cmd, timeout=2400, cwd=lib.VERIF, env={"VERIF_REPO": lib.REPO})
        ctx.build_ok = rc == 0
        ctx.build_log = out[-8000:]
        if ctx.build_ok:
            lib.audit(ctx, "C18.v")
        else:
            ctx.proof = {"file": "coq/Properties/C18.v", "obligations": 1, "discharged": 0, "theorems": [], "verdicts": [],
                         "problems": ["coq build failed: " + ctx.build_log[-1200:]]}


K37_PROTO = {"k37/k37.proto": 'syntax = "proto3";\npackage k37;\nmessage Leaf { oneof pick { int32 a = 1; string b = 2; } int32 z = 3; }\n'
                              'message Mid { Leaf n = 1; }\nmessage Outer { Mid q = 5; int32 x = 1; }\n'}
K37_SCRIPT = r"""
import importlib, json, sys
m = importlib.import_module(sys.argv[1] + ".k37")
out = {}
def run(name, f):
    try:
        o = m.Outer(); f(o); out[name] = [bytes(o).hex(), json.dumps(o.to_dict(), sort_keys=True)]
    except Exception as e:
        out[name] = ["EXC " + type(e).__name__ + ": " + str(e)[:200], ""]
def lazy_default(o): o.q.n.a = 0
def lazy_nondefault(o): o.q.n.a = 7
def lazy_plain_default(o): o.q.n.z = 0
def assigned_default(o): o.q = m.Mid(n=m.Leaf(a=0))
def flagged_holders(o):
    o.q = m.Mid(); o.q.n = m.Leaf(); o.q.n.a = 0
def lazy_b_empty(o): o.q.n.b = ""
for f in (lazy_default, lazy_nondefault, lazy_plain_default, assigned_default, flagged_holders, lazy_b_empty):
    run(f.__name__, f)
# raw states of the unselected oneof members (what C18's correspondence `orel` is about): PLACEHOLDER / None / a value
import betterproto as _bp
def raw(o, name):
    v = o.__dict__.get(name, "<absent>")
    return "PLACEHOLDER" if v is _bp.PLACEHOLDER else "None" if v is None else repr(v)
raws = {}
for name, mk in (("constructed", lambda: m.Leaf(a=0)), ("fresh", lambda: m.Leaf()), ("parsed", lambda: m.Leaf().parse(bytes.fromhex("0800"))),
                 ("assigned", lambda: (lambda o: (setattr(o, "b", "x"), o)[1])(m.Leaf(a=1)))):
    try:
        o = mk(); raws[name] = [raw(o, "a"), raw(o, "b"), _bp.which_one_of(o, "pick")[0], bytes(o).hex()]
    except Exception as e:
        raws[name] = ["EXC " + type(e).__name__ + ": " + str(e)[:200]]
out["__raw__"] = raws
print("K37OUT " + json.dumps(out))
"""

# raw state of (a, b), selected member, bytes: what Model/C18Beh.v (pyd_obj: None in unselected members after the constructor) and
# C18_parse_pydantic_canonical_refuted (PLACEHOLDER, not None, in the siblings reset by the decoder / by __setattr__) say
K37_RAW_EXPECT = {
    False: {"constructed": ["0", "PLACEHOLDER", "a", "0800"], "fresh": ["PLACEHOLDER", "PLACEHOLDER", "", ""],
            "parsed": ["0", "PLACEHOLDER", "a", "0800"], "assigned": ["PLACEHOLDER", "'x'", "b", "120178"]},
    True: {"constructed": ["0", "None", "a", "0800"], "fresh": ["None", "None", "", ""],
           "parsed": ["0", "PLACEHOLDER", "a", "0800"], "assigned": ["PLACEHOLDER", "'x'", "b", "120178"]},
}


def stage_nested_lazy(ctx):
    """identical histories on the plain and the pydantic classes of one schema: a oneof member assigned below lazily created holders
    (C18_bytes_pydantic needs sow_ok; C18_bytes_pydantic_flag_refuted is the witness, known finding K37)"""
    base = ctx.work
    PU.shim_dir(base)
    res = {}
    for pyd in (False, True):
        root = f"c18k37_{'pyd' if pyd else 'std'}"
        rc, out, _ = PU.generate(base, K37_PROTO, root, ("pydantic_dataclasses",) if pyd else ())
        if rc != 0:
            ctx.fail("oracle", "the plugin failed on the nested-lazy-default schema", input={"files": K37_PROTO, "output": out[-800:], "pydantic": pyd})
            return
        sp = os.path.join(base, "k37_script.py")
        open(sp, "w").write(K37_SCRIPT)
        rc, out = PU.run_in_subprocess(base, f"import sys; sys.argv = ['x', {root!r}]; exec(open({sp!r}).read())", timeout=300)
        line = [l for l in out.splitlines() if l.startswith("K37OUT ")]
        if rc != 0 or not line:
            ctx.fail("oracle", f"nested-lazy-default script failed under {'pydantic' if pyd else 'standard'} dataclasses", input={"output": out[-800:]})
            return
        res[pyd] = json.loads(line[0][7:])
    for pyd in (False, True):
        raws = res[pyd].pop("__raw__", {})
        for name, want in K37_RAW_EXPECT[pyd].items():
            ctx.count("raw_state_probes")
            if raws.get(name) != want:
                ctx.fail("corr", f"raw state of Leaf ({name}, {'pydantic' if pyd else 'standard'} dataclasses): implementation {raws.get(name)}, model {want} "
                                 "([raw a, raw b, which_one_of, bytes]; Model/C18Beh.v pyd_obj / C18_parse_pydantic_canonical_refuted)",
                         input={"files": K37_PROTO, "probe": name, "pydantic": pyd})
    for name in res[False]:
        ctx.count("nested_lazy_histories")
        a, b = res[False][name], res[True][name]
        if a != b:
            lazy_default_member = name in ("lazy_default", "lazy_b_empty")
            ctx.fail("oracle", f"history {name} on Outer(): standard dataclasses give bytes {a[0]} / JSON {a[1]}, pydantic dataclasses give bytes {b[0]} / JSON {b[1]}",
                     cls="pydantic-nested-default-flag" if lazy_default_member and a[1] == b[1] else None,
                     input={"files": K37_PROTO, "history": name, "standard": a, "pydantic": b})


def run(ctx):
    import threading

    ensure_tables(ctx)

    rng = ctx.rng
    side_err = []

    def side():
        sub = _Sub(ctx, ctx.seed * 7919 + 1)
        try:
            t0 = time.time()
            stage_compilers(sub)
            ctx.notes.append(f"stage A+B {time.time() - t0:.1f}s")
            t0 = time.time()
            stage_options(sub)
            stage_bundled_libs(sub)
            stage_nested_lazy(sub)
            ctx.notes.append(f"stage D+E {time.time() - t0:.1f}s")
        except Exception:  # noqa
            side_err.append(traceback.format_exc())

    th = threading.Thread(target=side)
    th.start()
    nbatches = 1 if not ctx.thorough else 6
    per_batch = 7 if not ctx.thorough else 14
    try:
        for bi in range(nbatches):
            t0 = time.time()
            schemas = []
            if bi == 0:
                schemas.append(G.systematic_schema(rng, "s0"))
                schemas.append(G.alias_schema(rng, "al0"))
                schemas.append(G.twofile_schema(rng, "tf0"))
                for ci, entry in enumerate(load_corpus()):
                    try:
                        schemas.append(corpus_schema(entry, f"k{ci}"))
                    except Exception as e:  # noqa
                        ctx.notes.append(f"corpus entry {ci} unusable: {e!r}")
            for i in range(per_batch):
                schemas.append(G.random_schema(rng, f"b{bi}r{i}", size=None if i % 3 else 4))
            for s in schemas:
                if "values" not in s:
                    G.make_values(rng, s, per_message=2 if not ctx.thorough else 4)
            ctx.count("schemas", len(schemas))
            stage_translation(ctx, schemas, f"b{bi}")
            ctx.notes.append(f"stage C batch {bi}: {len(schemas)} schemas, {time.time() - t0:.1f}s")
    finally:
        th.join()
    if side_err:
        raise RuntimeError("stage A/B/D failed:\n" + side_err[0])


TRUSTED = [
    "Coq 8.16.1 kernel and vm_compute (no native_compute); full .vo build via coq_makefile",
    "axioms: none (every theorem of Properties/C18.v is 'Closed under the global context')",
    "hand-written model coq/Model/Typing.v tied to the plugin by (a) string-level correspondence of the three TypingCompiler classes, "
    "(b) translation validation: every field line and every annotation site of every generated module, under all six option "
    "combinations, equals the model's text (vm_compute inside Coq), (c) the denotation of the generated text equals the type the "
    "runtime resolved for the imported class",
    "translator harness/gen_c18.py (T1): scalar py types, wrapper table, TYPE_* constants, the quoting behaviour of every template site "
    "(determined by running the real generate_code on a probe and comparing with the real compiler objects), pydantic enum bound",
    "the denotation `denote` is a specification of how Python reads an annotation; it is validated against typing.get_type_hints of "
    "CPython 3.12 on every text the printers emit, bare and through the three site kinds, and one-way on single-character damage (T3), "
    "but is not derived from CPython; not modelled: implicit concatenation of adjacent string literals, keywords, non-ASCII names, "
    "typing's removal of duplicate union members (denote keeps them: finer, so equal denotations stay equal)",
    "Python side: own .proto generator (harness/c18_protogen.py), tokenizer-based extraction of annotation text, per-variant "
    "import subprocesses, canonicalisation of resolved type hints",
    "grpc_tools.protoc 1.x as the front end; ruff is absent and replaced by a pass-through shim (import sorting / unused-import removal "
    "/ formatting are not exercised)",
    "not modelled: Jinja rendering as such, Python's importer, pydantic's validation beyond the enum bound and construction of the "
    "generated values (these are exercised for real by the oracle but no theorem speaks about them)",
]
ASSUMPTIONS = [
    "annotation text is ASCII; names are dotted Python identifiers other than None",
    "message / enum reference strings (get_type_reference) and pythonised names are inputs of the model (C13 / C19 own them)",
    "a string annotation is evaluated by Python as the expression it contains; a string literal ends at the next double quote",
]
RULE = ("schemas: one systematic schema per run (every scalar kind x {singular, optional, repeated, oneof, map value}, every map key kind, "
        "enums with negatives and int32 extremes, nested / recursive / cross-package / well-known types, services with the four "
        "cardinalities) plus random schemas from the same grammar, each under 3 typing x 2 dataclass options; "
        "non-trivial = a field / method / value case with at least one non-default feature; distinct = distinct "
        "(label, kind, google?, map key, variant) cells, distinct method shapes per variant, distinct type ASTs, distinct value cases")


def finish(ctx):
    return lib.finish(
        ctx, "translation_validation",
        "translation validation with a proved model: Coq theorems over a Gallina mirror of the typing compilers, template quoting and "
        "field compilers (the denotation inverts all three printers for every type AST) + every generated module of every option "
        "combination compared with the model + cross-variant oracle on the imported classes",
        ASSUMPTIONS, TRUSTED, RULE,
        extra_cov={"exhaustive": False,
                   "explanation": "theorems are unbounded (every type AST, every compiler, every site); the correspondence and the "
                                  "oracle are sampled over generated schemas"})


def replay(ctx, obj):
    """re-run the schema of a replay file under all six option combinations (stage C on that schema alone);
    exit status 1 while the failure is still there"""
    inp = obj.get("input") or {}
    schema = inp.get("schema")
    print(f"replaying: {obj.get('what')}  [{obj.get('kind')}/{obj.get('cls')}]  options={inp.get('options')}")
    if schema:
        ensure_tables(ctx)
        stage_translation(ctx, [schema], "rp")
        for f in ctx.failures[:8]:
            print(f"  {f['kind']}/{f.get('cls')}: {f['what']}  options={(f.get('input') or {}).get('options')}")
            print(f"     observed: {str(f.get('observed', f.get('observed_impl')))[:400]}")
        print(f"{len(ctx.failures)} failure(s) reproduced" if ctx.failures else "no failure on this tree")
        return 1 if ctx.failures else 0
    if inp.get("ast") is not None and inp.get("compiler"):
        c = T1.compiler_for(inp["compiler"])
        t = _tuplify(inp["ast"])
        real = real_print(c, t)
        print("implementation:", real, list(c.import_lines()))
        print("model print:", lib.coq_eval(ctx, IMPORTS_MODEL, f"print {COMP[inp['compiler']]} {coq_ty(t)}"))
        print("model imports:", lib.coq_eval(ctx, IMPORTS_MODEL, f"import_lines {COMP[inp['compiler']]} (ty_adds {COMP[inp['compiler']]} {coq_ty(t)})"))
        return 0
    if inp.get("text") is not None:
        print("CPython:", py_denote(inp["text"]))
        print("model:", lib.coq_eval(ctx, IMPORTS_MODEL, f"denote {cs(inp['text'])}"))
        return 0
    if inp.get("parameter") is not None:
        print("model:", lib.coq_eval(ctx, IMPORTS_MODEL, f"parse_options {cs(inp['parameter'])}"))
        try:
            src = T1.run_plugin(inp["parameter"])["c18probe/__init__.py"]
            print("implementation: generated;", "pydantic" if "pydantic.dataclasses" in src else "standard", "dataclasses;",
                  T1.extract(src)["classes"]["Resp"]["fields"][0][1])
        except Exception as e:  # noqa
            print("implementation raised", repr(e))
        return 0
    print(json.dumps(obj, indent=1)[:3000])
    return 0


def _tuplify(t):
    if isinstance(t, list):
        if t and t[0] == "union":
            return ("union", [_tuplify(x) for x in t[1]])
        return tuple(_tuplify(x) if isinstance(x, list) else x for x in t)
    return t
