"""C18 — plugin options: model/implementation correspondence, translation validation of the six
option variants, and the oracle (every variant imports, defines the same classes, encodes identically).

Stages (run(ctx)):
  A  T2  compiler combinators: random type ASTs through the three real TypingCompiler classes vs Model/Typing.v
  B  T3  the denotation `denote` vs CPython's own evaluation of the same annotation text
  C  TV  own .proto generator -> real plugin under 3 x 2 options -> every annotation site / field line compared
         with the model; every variant imported under its own root package in its own subprocess; class tables,
         resolved type hints, enum members compared pairwise, with the schema and with the model; bytes()/to_json()
         of equal values compared across variants
  D      option parsing (parser.generate_code) vs the model on option strings
"""
import json
import os
import sys
import time
import traceback
from concurrent.futures import ThreadPoolExecutor

from .. import lib
from .. import plugin_util as PU
from .. import c18_protogen as G
# from .. import gen_c18 as T1

VARIANTS = [(t, p) for t in ("direct", "root", "310") for p in (False, True)]


def vname(v):
    return f"{v[0]}_{'pyd' if v[1] else 'std'}"


def vopts(v):
    return [f"typing.{v[0]}"] + (["pydantic_dataclasses"] if v[1] else [])


# ======================================================================================
# worker: runs in its own subprocess, imports ONE variant tree under its unique root package
# ======================================================================================
def _canon_type(t, root):
    import typing
    import types as _types
    import collections.abc as cabc

    if t is type(None):
        return [["none"]]
    origin = getattr(t, "__origin__", None)
    if origin is typing.Union or isinstance(t, _types.UnionType):
        out = []
        for a in t.__args__:
            out += _canon_type(a, root)
        return out
    if origin is list:
        return [["list", _canon_type(t.__args__[0], root)]]
    if origin is dict:
        return [["dict", _canon_type(t.__args__[0], root), _canon_type(t.__args__[1], root)]]
    for nm, o in (("iterable", cabc.Iterable), ("asynciterable", cabc.AsyncIterable), ("asynciterator", cabc.AsyncIterator)):
        if origin is o:
            return [[nm, _canon_type(t.__args__[0], root)]]
    if isinstance(t, type):
        mod = t.__module__
        if mod == root or mod.startswith(root + "."):
            mod = mod[len(root):].lstrip(".")
        mod = mod.replace("betterproto.lib.pydantic.google", "betterproto.lib.google").replace("betterproto.lib.std.google", "betterproto.lib.google")
        return [["cls", mod, t.__qualname__]]
    return [["other", repr(t)]]


def _build(spec, mods, root):
    """turn a JSON value spec into a Python value of the variant under test"""
    import datetime

    if isinstance(spec, dict):
        if "__bytes__" in spec:
            return bytes.fromhex(spec["__bytes__"])
        if "__list__" in spec:
            return [_build(x, mods, root) for x in spec["__list__"]]
        if "__map__" in spec:
            return {_build(k, mods, root): _build(v, mods, root) for k, v in spec["__map__"]}
        if "__enum__" in spec:
            return _lookup(spec["__enum__"], mods, root)(spec["value"])
        if "__datetime_us__" in spec:
            return datetime.datetime(1970, 1, 1, tzinfo=datetime.timezone.utc) + datetime.timedelta(microseconds=spec["__datetime_us__"])
        if "__timedelta_us__" in spec:
            return datetime.timedelta(microseconds=spec["__timedelta_us__"])
        if "__msg__" in spec:
            cls = _lookup(spec["__msg__"], mods, root)
            return cls(**{_pyfield(k): _build(v, mods, root) for k, v in spec["fields"].items()})
        raise ValueError(f"bad spec {spec}")
    return spec


def _pyfield(n):
    from betterproto.compile.naming import pythonize_field_name

    return pythonize_field_name(n)


_TYPEMAP = {}


def _lookup(full, mods, root):
    mod, cls = _TYPEMAP[full]
    if mod.startswith("betterproto."):
        import importlib

        m = importlib.import_module(mod)
    else:
        m = mods[mod]
        if isinstance(m, str):
            raise ImportError(f"package {mod} did not import: {m}")
    return getattr(m, cls)


def worker_main(job_path):
    import dataclasses
    import importlib
    import inspect
    import typing
    import warnings

    warnings.simplefilter("ignore")
    job = json.load(open(job_path))
    root = job["root"]
    pyd = job["pydantic"]
    out = {"packages": {}, "classes": {}, "enums": {}, "values": [], "services": {}}
    mods = {}
    for pkg in job["packages"]:
        try:
            mods[pkg] = importlib.import_module(f"{root}.{pkg}")
            out["packages"][pkg] = "ok"
        except BaseException as e:  # noqa  (SyntaxError, ImportError, pydantic errors ...)
            mods[pkg] = f"{type(e).__name__}: {e}"
            out["packages"][pkg] = f"{type(e).__name__}: {str(e)[:400]}"
    for full, (mod, cls) in job["typemap"].items():
        _TYPEMAP[full] = (mod, cls)
    for full, kind in job["types"].items():
        mod, cname = _TYPEMAP[full]
        m = mods.get(mod)
        if isinstance(m, str) or m is None:
            continue
        try:
            c = getattr(m, cname)
            if kind == "enum":
                out["enums"][full] = [[e.name, int(e.value)] for e in c]
                continue
            hints = c._type_hints()
            rows = []
            for f in dataclasses.fields(c):
                meta = f.metadata["betterproto"]
                rows.append({"name": f.name, "number": meta.number, "proto_type": meta.proto_type,
                             "map_types": list(meta.map_types) if meta.map_types else None, "group": meta.group,
                             "wraps": meta.wraps, "optional": bool(meta.optional),
                             "hint": _canon_type(hints[f.name], root)})
            inst = c()
            out["classes"][full] = {"rows": rows, "pydantic": hasattr(c, "__pydantic_fields__") or hasattr(c, "__pydantic_validator__"),
                                    "default_bytes": bytes(inst).hex()}
        except BaseException as e:  # noqa
            out["classes"][full] = {"error": f"{type(e).__name__}: {str(e)[:400]}"}
    # services: signatures of the stub / base methods, resolved
    for pkg, svcs in job["services"].items():
        m = mods.get(pkg)
        if isinstance(m, str) or m is None:
            continue
        for sname, meths in svcs.items():
            for suffix in ("Stub", "Base"):
                key = f"{pkg}:{sname}{suffix}"
                try:
                    c = getattr(m, sname + suffix)
                    ns = dict(vars(m))
                    import grpclib.server  # noqa: F401  (TYPE_CHECKING-only names of the generated module)
                    from betterproto.grpc.grpclib_client import MetadataLike
                    from grpclib.metadata import Deadline

                    ns.update({"MetadataLike": MetadataLike, "Deadline": Deadline})
                    res = {}
                    for py_name in meths:
                        fn = getattr(c, py_name)
                        h = typing.get_type_hints(fn, ns, {})
                        res[py_name] = {k: ("<skip>" if k in ("metadata",) else _canon_type(v, root)) for k, v in h.items()}
                        res[py_name]["__kind__"] = ("asyncgen" if inspect.isasyncgenfunction(fn) else
                                                    "coroutine" if inspect.iscoroutinefunction(fn) else "other")
                    if suffix == "Base":
                        mp = c().__mapping__()
                        res["__mapping__"] = {r: [h.cardinality.name, h.request_type.__qualname__, h.reply_type.__qualname__] for r, h in mp.items()}
                    out["services"][key] = res
                except BaseException as e:  # noqa
                    out["services"][key] = {"error": f"{type(e).__name__}: {str(e)[:400]}"}
    for i, case in enumerate(job["values"]):
        r = {"i": i}

        def step(name, fn):
            try:
                r[name] = fn()
            except BaseException as e:  # noqa
                r[name] = f"ERR:{type(e).__name__}"
                r.setdefault("detail", {})[name] = f"{type(e).__name__}: {str(e)[:300]}"
                return None
            return r[name]

        try:
            cls = _lookup(case["cls"], mods, root)
            obj = cls(**{_pyfield(k): _build(v, mods, root) for k, v in case["fields"].items()})
            r["construct"] = "ok"
        except BaseException as e:  # noqa
            r["construct"] = f"ERR:{type(e).__name__}"
            r["detail"] = {"construct": f"{type(e).__name__}: {str(e)[:400]}"}
            out["values"].append(r)
            continue
        b = step("bytes", lambda: bytes(obj).hex())
        j = step("json", lambda: obj.to_json())
        step("len", lambda: len(obj))
        if b is not None:
            step("reparse_bytes", lambda: bytes(cls().parse(bytes.fromhex(b))).hex())
            step("reparse_json", lambda: cls().parse(bytes.fromhex(b)).to_json())
        if j is not None:
            step("from_json_bytes", lambda: bytes(cls().from_json(j)).hex())
        out["values"].append(r)
    json.dump(out, open(job["out"], "w"))


def run(ctx):
    raise NotImplementedError


def finish(ctx):
    raise NotImplementedError


def replay(ctx, obj):
    print(obj)
    return 0
