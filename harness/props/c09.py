"""C09 — len(m) = |bytes(m)|, dump writes exactly bytes(m): source-translation tie of the helpers (non-alarming, recorded only),
correspondence (T2) + oracle."""
import io

from .. import lib, msggen
from ..lib import cz, cb, cl, ce

IMPORTS = "Model.Types Model.Object Model.Eq Model.Encode Model.Len Model.Canon gen.Tables"
EXTRA_TARGETS = ["Model/Canon.vo", "Model/Len.vo"]

TRUSTED = [
    "Coq 8.16.1 kernel and vm_compute (no native_compute); full .vo build via coq_makefile",
    "hand-written model coq/Model/{Object,Eq,Float,TimeCore,Encode,Len}.v tied to /repo by executable correspondence (this harness): "
    "len_obj / enc_obj / dump are evaluated by vm_compute inside Coq on snapshots of the raw state of real Message objects and compared "
    "with len(m) / bytes(m) / m.dump(...) of the same objects",
    "translator harness/gen_tables.py (type tables, _pack_fmt, wrapper and Timestamp/Duration layouts reflected into coq/gen/Tables.v)",
    "Python side: harness/msggen.py (schema and value generators, snapshot of raw attributes through object.__getattribute__)",
    "float32 rounding (Model/Float.v d2f/f2d) is validated by this correspondence, not proved",
]
ASSUMPTIONS = [
    "Python int is Z; str is its UTF-8 bytes (no lone surrogates); float is its binary64 pattern; aware datetimes are microseconds since the epoch",
    "object identity is not modelled (values are trees)",
]
RULE = ("messages of a systematic schema (every scalar kind x {plain, optional, repeated, oneof member, map value, wrapper}, nested/recursive, "
        "Timestamp/Duration, field numbers at every tag-size boundary) and of random schemas; values from boundary/typical/out-of-range classes, "
        "containers of length 0..5, unknown fields injected through parse(); built by constructor kwargs and attribute assignment. "
        "non-trivial = encodes to at least one byte; distinct = distinct (class, encoded bytes)")


# --------------------------------------------------------------------------------------------------------------------
# Source-translation tie (second, tighter tie for the size-side / write-side helpers; NON-ALARMING on its own).
#   harness/gen_c09_src.py (an extension of harness/gen_c16_src.py) translates the CURRENT source text of _preprocess_single /
#   _len_preprocessed_single / _serialize_single / _len_single into coq/gen/C09Src.v (two parts: "preprocess", "single");
#   Proofs/C09SrcPre.v / C09Src.v prove the translation equal to the hand-written model (preprocess_with / len_preprocessed_with /
#   serialize_with / len_single_with) and restate the agreement of the two walks over the translated source;
#   Properties/C09SrcPre.v / C09Src.v state it.  These files are NOT among the
#   targets of the main build (EXTRA_TARGETS): a behaviour-preserving rewrite of the Python functions may make the translator
#   reject or the proof scripts fail while C09 still holds.  So this stage only RECORDS whether the tie held (evidence:
#   input_distribution "source_tie:*", coverage.source_translation_tie, an assumptions line, the theorems + Print Assumptions
#   verdicts when it held) and NEVER calls ctx.fail: when it does not hold, the sampled correspondence and the oracles below
#   decide, as before.
# --------------------------------------------------------------------------------------------------------------------
SRC_TIE_PARTS = [
    ("preprocess", "C09SrcPre.v", "the scalar arms of _preprocess_single / _len_preprocessed_single"),
    ("single", "C09Src.v", "_serialize_single / _len_single (they call the two above)"),
]


class _AuditSink:
    """lib.audit stores its result in `.proof` of whatever it is given; keeps the main ctx.proof untouched"""
    proof = None


def source_tie_stage(ctx):
    import os
    import re

    report = {"translator": None, "parts": {}}
    ctx.cov["source_translation_tie"] = report
    lines = []
    gen = os.path.join(lib.VERIF, "harness", "gen_c09_src.py")
    try:
        # (a) the translator's verdict on the current source (dry run: writes nothing; setup.sh below regenerates gen/C09Src.v
        #     and gen/C16Src.v, which it imports, under the build lock)
        rc, out = lib.run([lib.PY, gen, "--dry-run"], timeout=300, cwd=lib.VERIF)
        # the translator's own regression snippets (constructs outside the subset must be rejected): a translator that
        # fails them is not trusted to tie anything
        src, sout = lib.run([lib.PY, gen, "--selftest"], timeout=300, cwd=lib.VERIF)
        sl = [l for l in sout.strip().splitlines() if "WARNING conda" not in l]
        report["translator_selftest"] = sl[-1][:200] if sl else "no output"
        ctx.count("source_tie:translator_selftest_ok", 1 if src == 0 else 0)
        verdicts = {}
        for l in ([] if src != 0 else out.splitlines()):
            m = re.match(r"C09SRC-TRANSLATION-(OK|REJECTED): (\w+)(?:: (.*))?$", l)
            if m:
                verdicts[m.group(2)] = (m.group(1) == "OK", m.group(3) or "")
        report["translator"] = {k: {"accepted": ok, "message": why or "accepted"} for k, (ok, why) in verdicts.items()}
        for key, prop_file, what in SRC_TIE_PARTS:
            part = {"what": what, "held": False, "reason": None, "theorems": []}
            report["parts"][key] = part
            ok, why = verdicts.get(key, (False, "translator self-test failed" if src != 0 else "no verdict from the translator: " + out.strip()[-300:]))
            ctx.count(f"source_tie:{key}_translated", 1 if ok else 0)
            if not ok:
                part["reason"] = "translator rejected the current source (construct outside its subset): " + why
            else:
                brc, bout = lib.run([os.path.join(lib.VERIF, "setup.sh"), "Properties/" + prop_file + "o"], timeout=1500, cwd=lib.VERIF)
                if brc != 0:
                    err = re.findall(r'File "[^"]*", line \d+[^\n]*\n(?:[^\n]*\n){0,6}', bout)
                    part["reason"] = ("gen/C09Src.v (or gen/C16Src.v, which it imports) or the proofs do not compile against the current source "
                                      "(the proof scripts are tied to the shape of the code): " + (err[0] if err else bout[-600:]).strip()[:900])
                else:
                    sink = _AuditSink()
                    pr = lib.audit(sink, prop_file)
                    part["theorems"] = pr["theorems"]
                    if pr["problems"] or pr["discharged"] != pr["obligations"] or not pr["obligations"]:
                        part["reason"] = "audit of Properties/%s: %s" % (prop_file, "; ".join(pr["problems"])[:600] or "no theorem")
                    else:
                        part["held"] = True
                        part["print_assumptions"] = "all %d theorems closed under the global context" % pr["obligations"]
                        # the audit of the main file must have succeeded for the merged counts to mean anything
                        if ctx.proof and not ctx.proof.get("problems") and ctx.build_ok:
                            ctx.proof["obligations"] += pr["obligations"]
                            ctx.proof["discharged"] += pr["discharged"]
                            ctx.proof["theorems"] = list(ctx.proof["theorems"]) + pr["theorems"]
                            ctx.proof["verdicts"] = list(ctx.proof["verdicts"]) + pr["verdicts"]
            ctx.count(f"source_tie:{key}_held", 1 if part["held"] else 0)
            lines.append(f"{key} ({what}): " + ("HELD, %d theorems of Properties/%s closed" % (len(part["theorems"]), prop_file) if part["held"]
                                                 else "DID NOT HOLD on this tree - " + str(part["reason"])[:400]))
    except Exception as e:  # noqa  - this stage must never decide the check
        report["stage_error"] = repr(e)[:500]
        lines.append("stage could not complete: " + repr(e)[:300])
        for key, _, _ in SRC_TIE_PARTS:
            if key not in report["parts"] or not report["parts"][key].get("held"):
                ctx.dist.setdefault(f"source_tie:{key}_held", 0)
    held_all = all(report["parts"].get(k, {}).get("held") for k, _, _ in SRC_TIE_PARTS)
    ctx.src_tie_line = ("source-translation tie (harness/gen_c09_src.py -> coq/gen/C09Src.v, proved equal to the model in Properties/C09SrcPre.v, C09Src.v; "
                        "the TYPE_MESSAGE arm of the two *_preprocess* helpers is delegated to the hand-written model, struct.pack is the model's "
                        "pack_value, a dynamic value is classified by its Python type alone): "
                        + "; ".join(lines)
                        + (". Where it did not hold the check FELL BACK to the sampled correspondence and the oracles (no verdict is drawn "
                           "from a failed translation or a failed equality proof)." if not held_all else ""))
    ctx.notes.append(ctx.src_tie_line)
    return report


def outcome(f, conv):
    try:
        return conv(f())
    except Exception:  # noqa
        return ce("EOther")


def property_problems(m):
    """C09 evaluated on one real object: list of violated clauses (empty = holds)"""
    import betterproto as bp

    def dumped(delim):
        st = io.BytesIO()
        m.dump(st, delim) if delim is not None else m.dump(st)
        return st.getvalue()
    try:
        b = bytes(m)
    except Exception:
        try:
            len(m)
            return ["bytes(m) raises but len(m) returns"]
        except Exception:
            return []
    problems = []
    try:
        if len(m) != len(b):
            problems.append(f"len(m)={len(m)} but len(bytes(m))={len(b)}")
        if dumped(None) != b:
            problems.append("dump(stream) differs from bytes(m)")
        if dumped(bp.SIZE_DELIMITED) != msggen.enc_varint(len(b)) + b:
            problems.append("dump(stream, SIZE_DELIMITED) is not varint(len)+bytes(m)")
        if m.SerializeToString() != b:
            problems.append("SerializeToString differs from bytes(m)")
    except Exception as e:
        problems.append(f"bytes(m) succeeds but another observer raises {type(e).__name__}: {e}")
    return problems


def failing_input(s, m, tree):
    """shrunk, replayable form of a failing object"""
    small = msggen.shrink_tree(s, tree, lambda t: property_problems(msggen.rebuild(s, t)))
    return {"schema_spec": msggen.schema_spec(s), "state": small, "repr": repr(msggen.rebuild(s, small))[:1500]}


CORPUS = [  # regression inputs: former defects of the pinned tree (known_findings/fixed.txt)
    ("F1 optional empty string", "KOptional", {"o_string_13": ""}),
    ("F1 optional zero int", "KOptional", {"o_int32_2": 0}),
    ("F1 optional empty bytes", "KOptional", {"o_bytes_14": b""}),
    ("F13 map entry with default key and value", "KMap", {"m_string_string_25": {"": ""}}),
    ("F13 map entry default key, empty message", "KMap", {"m_string_message_28": {"": None}}),
]


def length_schema():
    """length-delimited fields under one-, two- and three-byte tags: the size of a length prefix depends on the payload alone
    (seeded change C09-5: a prefix sized from payload + key is one byte too long exactly when the payload is 127 / 16383 bytes)"""
    F, E = msggen.Field, msggen.Elem
    sc = msggen.scalar
    inner = msggen.Cls("LInner", [F("s", 1, "plain", sc("string")), F("b", 2047, "plain", sc("bytes"))])
    outer = msggen.Cls("LOuter", [
        F("s1", 1, "plain", sc("string")), F("b15", 15, "plain", sc("bytes")), F("s16", 16, "plain", sc("string")),
        F("b2047", 2047, "plain", sc("bytes")), F("s2048", 2048, "plain", sc("string")),
        F("m3", 3, "plain", E("msg", "message", 0)), F("m17", 17, "plain", E("msg", "message", 0)),
        F("r4", 4, "repeated", sc("fixed32")), F("r18", 18, "repeated", sc("bool")),
        F("rs5", 5, "repeated", sc("string")), F("rm19", 19, "repeated", E("msg", "message", 0)),
        F("mp6", 6, "map", sc("bytes"), key=sc("string")), F("mp20", 20, "map", E("msg", "message", 0), key=sc("int32")),
        F("o7", 7, "optional", sc("string")), F("u8", 8, "plain", sc("bytes"), group=0), F("u21", 21, "plain", E("msg", "message", 0), group=0)], 1)
    return msggen.Schema([inner, outer], [])


LENGTHS = [0, 1, 125, 126, 127, 128, 129, 16381, 16382, 16383, 16384, 16385]


def length_cases(s):
    """messages of length_schema() whose length-delimited payloads sit on and around the 1->2 and 2->3 byte prefix boundaries,
    for the payload itself, for payload + key, and for the enclosing message / entry"""
    Inner, Outer = s.classes[0].py, s.classes[1].py
    out = []
    for n in LENGTHS:
        for d in (0, 1, 2, 3, 4):          # the child's own key and prefix take 2-4 bytes: put the CHILD on the boundary too
            k = max(0, n - d)
            out.append((f"str{k}", Outer(s1="a" * k)))
            out.append((f"bytes15-{k}", Outer(b15=b"x" * k)))
            out.append((f"str16-{k}", Outer(s16="a" * k)))
            out.append((f"bytes2047-{k}", Outer(b2047=b"x" * k)))
            out.append((f"str2048-{k}", Outer(s2048="a" * k)))
            out.append((f"child3-{k}", Outer(m3=Inner(s="a" * k))))
            out.append((f"child17-{k}", Outer(m17=Inner(b=b"x" * k))))
            out.append((f"rep-str-{k}", Outer(rs5=["", "a" * k])))
            out.append((f"rep-child-{k}", Outer(rm19=[Inner(), Inner(s="a" * k)])))
            out.append((f"map-bytes-{k}", Outer(mp6={"k": b"x" * k})))
            out.append((f"map-key-{k}", Outer(mp6={"a" * k: b""})))
            out.append((f"map-child-{k}", Outer(mp20={-1: Inner(s="a" * k)})))
            out.append((f"optional-{k}", Outer(o7="a" * k)))
            out.append((f"oneof-bytes-{k}", Outer(u8=b"x" * k)))
            out.append((f"oneof-child-{k}", Outer(u21=Inner(s="a" * k))))
        if n % 4 == 0 or True:
            out.append((f"packed-fixed32-{n // 4}", Outer(r4=list(range(n // 4)))))
        out.append((f"packed-bool-{n}", Outer(r18=[bool(i & 1) for i in range(n)])))
    return out


def run(ctx):
    import betterproto as bp

    source_tie_stage(ctx)

    rng = ctx.rng
    matrix = msggen.matrix_schema()
    for what, cname, kw in CORPUS:
        ci = [c.name for c in matrix.classes].index(cname)
        kw = {k: ({kk: (matrix.classes[0].py() if vv is None else vv) for kk, vv in v.items()} if isinstance(v, dict) else v) for k, v in kw.items()}
        m = matrix.classes[ci].py(**kw)
        tree = msggen.state_tree(matrix, m)
        for p in property_problems(m):
            ctx.fail("oracle", f"regression ({what}): {p}", input=failing_input(matrix, m, tree))
        ctx.count("corpus")
    matrix.dispose()
    schemas = [msggen.matrix_schema()] + [msggen.random_schema(rng) for _ in range(6 if not ctx.thorough else 60)] + [length_schema()]
    prelude = "\n".join(f"Definition sc{i} : schema := {s.coq()}." for i, s in enumerate(schemas))
    pairs, meta = [], []
    n_per = (150 if not ctx.thorough else 1500)
    for si, s in enumerate(schemas):
        k = n_per * (4 if si == 0 else 1) // 2
        for _ in range(k):
            ci = rng.randrange(len(s.classes))
            in_range = rng.random() < 0.85
            try:
                m = msggen.gen_message(s, ci, rng, in_range=in_range)
                lit = msggen.obj_literal(s, m)
                tree = msggen.state_tree(s, m)
            except msggen.Unmodellable:
                ctx.count("unmodellable")
                continue
            except Exception as e:  # constructing the value itself failed: not this property's business
                ctx.count("construct_error:" + type(e).__name__)
                continue
            # the property as the FIRST thing observed on this object (the previous object may have failed half-way through
            # bytes(): whatever a failed call leaves behind must not leak into the next one - seeded change C09-6)
            probs0 = property_problems(m)
            if probs0 and not any(f["kind"] == "oracle" and f["what"] == "first observation: " + probs0[0] for f in ctx.failures):
                ctx.fail("oracle", "first observation: " + probs0[0], cls=None, all_problems=probs0, input=failing_input(s, m, tree))
            # observables of the property, on the real object (snapshot was taken first: bytes()/len() materialise defaults)
            exp_len = outcome(lambda: len(m), cz)
            exp_bytes = outcome(lambda: bytes(m), cb)

            def dumped(delim):
                st = io.BytesIO()
                m.dump(st, delim) if delim is not None else m.dump(st)
                return st.getvalue()
            exp_dump = outcome(lambda: dumped(None), cb)
            exp_dumpd = outcome(lambda: dumped(bp.SIZE_DELIMITED), cb)
            exp_ser = outcome(lambda: m.SerializeToString(), cb)
            model = (f"(let o := {lit} in CL [cv_z_res (len_obj sc{si} o); cv_bytes_res (enc_obj sc{si} o); "
                     f"cv_bytes_res (dump sc{si} o false); cv_bytes_res (dump sc{si} o true); cv_bytes_res (enc_obj sc{si} o)])")
            pairs.append((model, cl([exp_len, exp_bytes, exp_dump, exp_dumpd, exp_ser])))
            meta.append((si, ci, m))
            ctx.cov["evaluations"] += 1
            # ---- oracle: the property itself on the implementation
            try:
                b = bytes(m)
                ok = True
            except Exception:
                ok = False
                b = b""
            ctx.count("encodable" if ok else "unencodable")
            if ok and b:
                ctx.seen_nontrivial((si, ci, b))
            probs = property_problems(m)
            if probs and not any(f["kind"] == "oracle" and f["what"] == probs[0] for f in ctx.failures):
                ctx.fail("oracle", probs[0], cls=None, all_problems=probs, input=failing_input(s, m, tree))
            elif probs:
                ctx.count("further_oracle_failures")
            if len(ctx.cov["samples"]) < 6 and ok and b:
                ctx.sample({"class": s.classes[ci].name, "repr": repr(m)[:300], "bytes": b.hex()[:200]})
    # ---- length-prefix boundaries (oracle on all of them; model correspondence on the short ones)
    ls = schemas[-1]
    for tag, m in length_cases(ls):
        ctx.cov["evaluations"] += 1
        ctx.count("length_boundary_cases")
        probs = property_problems(m)
        if probs:
            ctx.fail("oracle", f"length boundary case {tag}: {probs[0]}", all_problems=probs,
                     input={"schema_spec": msggen.schema_spec(ls), "case": tag, "repr": repr(m)[:300]})
            break
        try:
            if len(bytes(m)) <= 300:
                lit = msggen.obj_literal(ls, m)
                exp = cl([outcome(lambda: len(m), cz), outcome(lambda: bytes(m), cb)])
                pairs.append((f"(let o := {lit} in CL [cv_z_res (len_obj sc{len(schemas) - 1} o); cv_bytes_res (enc_obj sc{len(schemas) - 1} o)])", exp))
                meta.append((len(schemas) - 1, 1, m))
        except msggen.Unmodellable:
            pass
    # ---- second observation of the same objects after an in-place mutation (list append / dict store / assignment inside
    #      a nested message / plain assignment): len() and dump() must follow the new state, not an earlier walk
    first_round = list(meta)
    for si, ci, m in first_round[:: 3 if not ctx.thorough else 1]:
        s = schemas[si]
        c = s.classes[ci]
        cands = [f for f in c.fields if f.card in ("repeated", "map") or (f.card == "plain" and f.elem.kind == "msg")]
        if not cands:
            continue
        f = rng.choice(cands)
        try:
            cur = getattr(m, f.name)
            if f.card == "repeated":
                cur.append(msggen.gen_elem(s, f.elem, rng, 2))
                kind = "append"
            elif f.card == "map":
                cur[msggen.gen_scalar(f.key.pt, rng)] = msggen.gen_elem(s, f.elem, rng, 2)
                kind = "dict-store"
            else:
                inner = s.classes[f.elem.ref]
                scal = [g for g in inner.fields if g.card == "plain" and g.elem.kind == "scalar"]
                if not scal:
                    continue
                g = rng.choice(scal)
                setattr(cur, g.name, msggen.gen_scalar(g.elem.pt, rng))
                kind = "nested-assign"
            lit = msggen.obj_literal(s, m)
            tree = msggen.state_tree(s, m)
        except (AttributeError, msggen.Unmodellable):
            continue
        ctx.count("second-observation:" + kind)
        exp = cl([outcome(lambda: len(m), cz), outcome(lambda: bytes(m), cb)])
        pairs.append((f"(let o := {lit} in CL [cv_z_res (len_obj sc{si} o); cv_bytes_res (enc_obj sc{si} o)])", exp))
        meta.append((si, ci, m))
        ctx.cov["evaluations"] += 1
        probs = property_problems(m)
        if probs:
            ctx.fail("oracle", f"after len()/bytes() and an in-place {kind} on field {f.name}: {probs[0]}", all_problems=probs,
                     input={"history": ["construct", "len/bytes/dump", f"in-place {kind} on {f.name}", "len/bytes/dump"],
                            "schema_spec": msggen.schema_spec(s), "state_after": tree, "repr": repr(m)[:1500]})
    bad = lib.coq_compare(ctx, "c09", IMPORTS, pairs, chunk=120, prelude=prelude)
    for i in sorted(bad, key=lambda i: len(pairs[i][0]))[:3]:
        si, ci, m = meta[i]
        ctx.fail("corr", "model (len_obj/enc_obj/dump) and implementation (len/bytes/dump) disagree",
                 theorem_or_correspondence="correspondence Model/Encode.v+Len.v <-> Message.dump/__len__",
                 input={"class": schemas[si].classes[ci].name, "fields": schemas[si].describe()[schemas[si].classes[ci].name],
                        "repr_after_observers": repr(m)[:1500], "model_expr": pairs[i][0][:3000], "implementation": pairs[i][1][:1500]},
                 no_input=not [f for f in ctx.failures if f["kind"] == "oracle"])
    if bad:
        ctx.notes.append(f"{len(bad)} correspondence disagreements in total")
    ctx.cov["disagreements_checked"] = len(pairs)
    for s in schemas:
        s.dispose()


def finish(ctx):
    tie = ctx.cov.get("source_translation_tie") or {}
    held = [k for k, p in (tie.get("parts") or {}).items() if p.get("held")]
    assumptions = list(ASSUMPTIONS) + [getattr(ctx, "src_tie_line", "source-translation tie: stage not run")]
    trusted = list(TRUSTED)
    if held:
        trusted.append("source-translation tie (held for: " + ", ".join(held) + "): the translator harness/gen_c09_src.py on top of harness/gen_c16_src.py "
                       "(Python `ast`, fail-closed, accepted subsets documented in their headers) and the semantics of the Python operations they target, "
                       "coq/Model/C16SrcLib.v + coq/Model/C09SrcLib.v (ints as Z, bytes as lists, proto_type as one of the 18 type names, a dynamic value "
                       "classified by its Python type, struct.pack = the model's pack_value, the TYPE_MESSAGE arm delegated to the model, exceptions by "
                       "class only); for the parts that held (preprocess = scalar arms of _preprocess_single / _len_preprocessed_single, single = "
                       "_serialize_single / _len_single) the hand-written model is no longer trusted beyond that: it is PROVED equal to the translation")
    return lib.finish(
        ctx, "proof",
        "Coq theorems over a Gallina mirror of Message.dump / __len__ (two separate walks) + executable correspondence (vm_compute) with the implementation"
        + ("; the size-side / write-side helpers additionally tied by mechanical source translation proved equal to the model" if held else ""),
        assumptions, trusted, RULE,
        extra_cov={"explanation": "theorems are unbounded (all schemas, all object states); the correspondence samples schemas and values"})


def replay(ctx, obj):
    """re-run a recorded failing input against the current tree: exit 1 if the property still fails on it"""
    inp = obj.get("input") or {}
    if "schema_spec" not in inp:
        print("replay file has no replayable input (correspondence / proof break):", obj.get("what") or obj.get("theorem_or_correspondence"))
        return 0
    s = msggen.schema_from_spec(inp["schema_spec"])
    m = msggen.rebuild(s, inp["state"])
    print("object:", repr(m)[:1000])
    probs = property_problems(m)
    for p in probs:
        print("FAILS:", p)
    if not probs:
        print("property holds on this input")
    return 1 if probs else 0
