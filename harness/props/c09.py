"""C09 — len(m) = |bytes(m)|, dump writes exactly bytes(m): correspondence (T2) + oracle."""
import io

from .. import lib, msggen
from ..lib import cz, cb, cl, ce

IMPORTS = "Model.Types Model.Object Model.Eq Model.Encode Model.Len Model.Canon gen.Tables"
EXTRA_TARGETS = ["Model/Canon.vo", "Model/Len.vo"]

TRUSTED = [
    "Coq 8.16.1 kernel and vm_compute (no native_compute); full .vo build via coq_makefile",
    "hand-written model coq/Model/{Object,Eq,Float,TimeCore,Encode,Len}.v tied to /repo by executable correspondence (this harness): "
    "len_obj / enc_obj / dump are evaluated by vm_compute inside Coq on snapshots of the raw state of real Message objects and compared "
    "with len(m) / bytes(m) / m.dump(...) of the same objects",
    "translator harness/gen_tables.py (type tables, _pack_fmt, wrapper and Timestamp/Duration layouts reflected into coq/gen/Tables.v)",
    "Python side: harness/msggen.py (schema and value generators, snapshot of raw attributes through object.__getattribute__)",
    "float32 rounding (Model/Float.v d2f/f2d) is validated by this correspondence, not proved",
]
ASSUMPTIONS = [
    "Python int is Z; str is its UTF-8 bytes (no lone surrogates); float is its binary64 pattern; aware datetimes are microseconds since the epoch",
    "object identity is not modelled (values are trees)",
]
RULE = ("messages of a systematic schema (every scalar kind x {plain, optional, repeated, oneof member, map value, wrapper}, nested/recursive, "
        "Timestamp/Duration, field numbers at every tag-size boundary) and of random schemas; values from boundary/typical/out-of-range classes, "
        "containers of length 0..5, unknown fields injected through parse(); built by constructor kwargs and attribute assignment. "
        "non-trivial = encodes to at least one byte; distinct = distinct (class, encoded bytes)")


def outcome(f, conv):
    try:
        return conv(f())
    except Exception:  # noqa
        return ce("EOther")


def run(ctx):
    import betterproto as bp
    rng = ctx.rng
    schemas = [msggen.matrix_schema()] + [msggen.random_schema(rng) for _ in range(6 if not ctx.thorough else 60)]
    prelude = "\n".join(f"Definition sc{i} : schema := {s.coq()}." for i, s in enumerate(schemas))
    pairs, meta = [], []
    n_per = (150 if not ctx.thorough else 1500)
    for si, s in enumerate(schemas):
        k = n_per * (4 if si == 0 else 1) // 2
        for _ in range(k):
            ci = rng.randrange(len(s.classes))
            in_range = rng.random() < 0.85
            try:
                m = msggen.gen_message(s, ci, rng, in_range=in_range)
                lit = msggen.obj_literal(s, m)
            except msggen.Unmodellable:
                ctx.count("unmodellable")
                continue
            except Exception as e:  # constructing the value itself failed: not this property's business
                ctx.count("construct_error:" + type(e).__name__)
                continue
            # observables of the property, on the real object (snapshot was taken first: bytes()/len() materialise defaults)
            exp_len = outcome(lambda: len(m), cz)
            exp_bytes = outcome(lambda: bytes(m), cb)

            def dumped(delim):
                st = io.BytesIO()
                m.dump(st, delim) if delim is not None else m.dump(st)
                return st.getvalue()
            exp_dump = outcome(lambda: dumped(None), cb)
            exp_dumpd = outcome(lambda: dumped(bp.SIZE_DELIMITED), cb)
            exp_ser = outcome(lambda: m.SerializeToString(), cb)
            model = (f"(let o := {lit} in CL [cv_z_res (len_obj sc{si} o); cv_bytes_res (enc_obj sc{si} o); "
                     f"cv_bytes_res (dump sc{si} o false); cv_bytes_res (dump sc{si} o true); cv_bytes_res (enc_obj sc{si} o)])")
            pairs.append((model, cl([exp_len, exp_bytes, exp_dump, exp_dumpd, exp_ser])))
            meta.append((si, ci, m))
            ctx.cov["evaluations"] += 1
            # ---- oracle: the property itself on the implementation
            try:
                b = bytes(m)
                ok = True
            except Exception:
                ok = False
            if ok:
                ctx.count("encodable")
                if b:
                    ctx.seen_nontrivial((si, ci, b))
                problems = []
                try:
                    if len(m) != len(b):
                        problems.append(f"len(m)={len(m)} but len(bytes(m))={len(b)}")
                    if dumped(None) != b:
                        problems.append("dump(stream) differs from bytes(m)")
                    if dumped(bp.SIZE_DELIMITED) != msggen.enc_varint(len(b)) + b:
                        problems.append("dump(stream, SIZE_DELIMITED) is not varint(len)+bytes(m)")
                    if m.SerializeToString() != b:
                        problems.append("SerializeToString differs from bytes(m)")
                except Exception as e:
                    problems.append(f"bytes(m) succeeds but another observer raises {type(e).__name__}: {e}")
                for p in problems:
                    ctx.fail("oracle", p, cls=None, input={"schema": s.describe(), "class": s.classes[ci].name, "repr": repr(m)[:2000], "bytes": b.hex()})
            else:
                ctx.count("unencodable")
                try:
                    len(m)
                    ctx.fail("oracle", "bytes(m) raises but len(m) returns", input={"schema": s.describe(), "repr": repr(m)[:2000]})
                except Exception:
                    pass
            if len(ctx.cov["samples"]) < 6 and ok and b:
                ctx.sample({"class": s.classes[ci].name, "repr": repr(m)[:300], "bytes": b.hex()[:200]})
    bad = lib.coq_compare(ctx, "c09", IMPORTS, pairs, chunk=120, prelude=prelude)
    for i in bad[:20]:
        si, ci, m = meta[i]
        ctx.fail("corr", "model (len_obj/enc_obj/dump) and implementation (len/bytes/dump) disagree",
                 input={"schema": schemas[si].describe(), "class": schemas[si].classes[ci].name, "repr": repr(m)[:2000],
                        "model_expr": pairs[i][0][:4000], "implementation": pairs[i][1][:4000]})
    ctx.cov["disagreements_checked"] = len(pairs)
    for s in schemas:
        s.dispose()


def finish(ctx):
    return lib.finish(
        ctx, "proof",
        "Coq theorems over a Gallina mirror of Message.dump / __len__ (two separate walks) + executable correspondence (vm_compute) with the implementation",
        ASSUMPTIONS, TRUSTED, RULE,
        extra_cov={"explanation": "theorems are unbounded (all schemas, all object states); the correspondence samples schemas and values"})


def replay(ctx, obj):
    print(obj)
    return 0
