"""C02 — wire interoperability with google.protobuf, every legal alternative encoding.

T3 (spec <-> reference): for msggen schemas the reference classes are built in memory (harness/c02_reference.py);
    Spec/Wire.sem, evaluated inside Coq on the bytes, must equal the reference's reading of the same bytes field by
    field (values, HasField / WhichOneof, unknown fields) — for betterproto's bytes, for the reference's own
    serialisation and for every re-encoding of it (harness/wiregen.reencode); the re-encodings must parse in the
    reference to the same message.  A disagreement is a broken specification (kind "spec"), never a betterproto violation.
T2 (model <-> betterproto): Model/Decode.parse on the same bytes against the raw state of the real object after
    Message.parse; Model/Encode.enc_obj against bytes(m); abs (parse bs) = sem bs inside Coq wherever `supported` holds.
Oracle (the property on the implementation): the real betterproto object and the real reference object, observed
    through their public APIs, agree after decoding the same bytes (both directions, every re-encoding).
"""
import json
import os
import time

from .. import lib, msggen, wiregen
from .. import c02_reference as R
from ..lib import cz, cb, cl, ce, CN, cbool, coq_bytes

IMPORTS = ("Model.Types Model.Object Model.Eq Model.Encode Model.Decode Model.Canon Model.WellFormed gen.Tables "
           "Spec.Wire Proofs.C02Abs")
EXTRA_TARGETS = ["Model/Canon.vo", "Proofs/C02Abs.vo"]

TRUSTED = [
    "Coq 8.16.1 kernel and vm_compute (no native_compute); full .vo build via coq_makefile",
    "axioms: none (every theorem of Properties/C02.v is 'Closed under the global context')",
    "specification coq/Spec/Wire.v (records, parse_wire / wire_ok, sem, has_field) validated against google.protobuf (upb) by T3 of this harness",
    "hand-written model coq/Model/{Object,Eq,Float,Utf8,TimeCore,Encode,Decode}.v tied to /repo by executable correspondence (T2 of this harness)",
    "abstraction coq/Proofs/C02Abs.v (abs_obj) is compared, on real objects, with the observation of the same object through betterproto's public API",
    "translator harness/gen_tables.py (type tables, _pack_fmt, wrapper and Timestamp/Duration layouts reflected into coq/gen/Tables.v)",
    "Python side: harness/msggen.py (schemas, values, raw-state snapshots), harness/wiregen.py (independent record reader/writer, re-encoder), "
    "harness/c02_reference.py (in-memory reference classes, observation functions)",
    "float32 rounding (Model/Float.v d2f/f2d) is validated by the correspondence, not proved; UTF-8 validity is a model of CPython's decoder",
    "oracle: google.protobuf 7.x (upb)",
]
ASSUMPTIONS = [
    "Python int is Z; str is its UTF-8 bytes (no lone surrogates); float is its binary64 pattern; aware datetimes are microseconds since the epoch",
    "object identity is not modelled (values are trees); map iteration order is not compared (maps are compared up to order)",
    "scope limits of C02_decode_refines (predicate `supported`): repeated occurrence of a singular message field, map entries carrying anything "
    "but key/value, unknown fields or non-representable (seconds, nanos) inside Timestamp/Duration/wrapper payloads, varints wider than 32 bits on uint32/sint32 fields",
]
RULE = ("messages of the systematic schema (every scalar kind x {plain, optional, repeated, oneof member, map value, wrapper}, nested/recursive, "
        "Timestamp/Duration, field numbers at every tag-size boundary) and of random schemas, in-range values from boundary/typical classes, containers of "
        "length 0..5, unknown fields; each message is encoded by betterproto and decoded by the reference, re-serialised by the reference, and re-encoded "
        "by wiregen.reencode (packed<->unpacked, chunk split, mixed, stable permutation, varint padding, duplicated singular scalars, interleaved unknowns); "
        "plus the hand-written regression corpus corpus/C02.json.  non-trivial = at least one record; distinct = distinct (class, byte string)")

N_REENC_QUICK, N_REENC_THOROUGH = 4, 10


def compare(ctx, name, pairs, chunk, prelude):
    """lib.coq_compare, retried when another check regenerated coq/gen/*.v under our feet (agents run concurrently:
    the compiled libraries are then momentarily inconsistent; rebuilding our targets restores them)"""
    for attempt in range(4):
        try:
            return lib.coq_compare(ctx, f"{name}_{attempt}" if attempt else name, IMPORTS, pairs, chunk=chunk, prelude=prelude)
        except RuntimeError as e:
            if "inconsistent assumptions" not in str(e) or attempt == 3:
                raise
            ctx.count("retry:inconsistent_vo")
            time.sleep(5 + 10 * attempt)
            lib.build(ctx, ["Properties/C02.vo"] + EXTRA_TARGETS)


def safe(f, *a, **k):
    try:
        return True, f(*a, **k)
    except Exception as e:  # noqa
        return False, e


def strip_unknown(t):
    """tree without unknown fields (all levels)"""
    k = t[0]
    if k == "msg":
        return ("msg", [strip_unknown(x) for x in t[1]], [])
    if k == "some":
        return ("some", strip_unknown(t[1]))
    if k == "list":
        return ("list", [strip_unknown(x) for x in t[1]])
    if k == "map":
        return ("map", [(a, strip_unknown(b)) for a, b in t[1]])
    return t


def has_neg_zero(m):
    import dataclasses
    import math
    import betterproto as bp
    if isinstance(m, float):
        return m == 0 and math.copysign(1, m) < 0
    if isinstance(m, bp.Message):
        return any(has_neg_zero(object.__getattribute__(m, f.name)) for f in dataclasses.fields(m))
    if isinstance(m, list):
        return any(has_neg_zero(x) for x in m)
    if isinstance(m, dict):
        return any(has_neg_zero(x) for x in m.values())
    return False


class Case:
    __slots__ = ("si", "ci", "bs", "label", "expect", "ref_exact", "lit_after", "impl_ok", "kinds")


def run(ctx):
    rng = ctx.rng
    nrand = 6 if not ctx.thorough else 25
    schemas = [msggen.matrix_schema()] + [msggen.random_schema(rng) for _ in range(nrand)] + msggen.twin_schemas()
    prelude = "\n".join(f"Definition sc{i} : schema := {s.coq()}." for i, s in enumerate(schemas))
    refs = []
    for si, s in enumerate(schemas):
        ok, r = safe(R.build, s)
        if not ok:
            ctx.fail("spec", f"could not build reference classes for schema {si}: {r!r}", input={"schema": s.describe()},
                     no_input=True, theorem_or_correspondence="T3 reference construction")
            refs.append(None)
        else:
            refs.append(r)

    cases = []          # decode-side cases (bytes fed to sem / reference / betterproto / model)
    enc_pairs, enc_meta, enc_lits = [], [], []
    nre = N_REENC_QUICK if not ctx.thorough else N_REENC_THOROUGH

    def describe(si, ci):
        return {"schema": schemas[si].describe() if si else "msggen.matrix_schema()", "class": schemas[si].classes[ci].name}

    # ------------------------------------------------------------------ decode-side case: everything observed on one byte string
    def add_decode_case(si, ci, bs, label, expect="supported", ref_expected=None, kinds=()):
        s, rs = schemas[si], refs[si]
        Ref, Cls = rs.classes[ci], s.classes[ci].py
        inp = dict(describe(si, ci), bytes=bs.hex(), encoding=label)
        ok, ref2 = safe(Ref.FromString, bs)
        if expect == "invalid":
            # not a legal encoding for this schema: the reference rejects it, and so must the specification (T3)
            if ok:
                ctx.fail("spec", f"the reference accepts a corpus input marked invalid ({label})", input=inp)
                return
            okb, m2 = safe(lambda: Cls().parse(bs))
            ctx.notes.append(f"invalid input [{label}]: betterproto " + ("ACCEPTS it (C17's business)" if okb else f"rejects it too ({type(m2).__name__})"))
            c = Case()
            c.si, c.ci, c.bs, c.label, c.expect, c.kinds = si, ci, bs, label, expect, kinds
            c.ref_exact, c.impl_ok, c.lit_after = None, okb, None
            if okb:
                okl, lit = safe(msggen.obj_literal, s, m2)
                c.lit_after = lit if okl else None
            cases.append(c)
            ctx.count("decode:corpus-invalid")
            return
        if not ok:
            # generated from the spec's own record writer: the reference must accept it
            ctx.fail("spec", f"the reference rejects a byte string the generator considers a legal encoding ({label}): {ref2}", input=inp)
            return
        ok, t_ref = safe(R.ref_tree, rs, ci, ref2, "exact")
        if not ok:
            ctx.fail("spec", f"cannot observe the reference message: {t_ref!r}", input=inp)
            return
        if ref_expected is not None:
            a, b = ref_expected, t_ref
            if "unknown-interleaved" in kinds or "permute" in kinds:      # both change the unknown-field list (content / order across numbers)
                a, b = strip_unknown(a), strip_unknown(b)
            d = R.tree_diff(a, b)
            if d:
                ctx.fail("spec", f"a re-encoding ({label}) does not parse in the reference to the original message: {d}", input=inp)
                return
        c = Case()
        c.si, c.ci, c.bs, c.label, c.expect, c.kinds = si, ci, bs, label, expect, kinds
        c.ref_exact = t_ref
        # the real implementation
        ok, m2 = safe(lambda: Cls().parse(bs))
        c.impl_ok = ok
        c.lit_after = None
        if ok:
            okl, lit = safe(msggen.obj_literal, s, m2)
            c.lit_after = lit if okl else None
            # ---- oracle: betterproto and the reference agree on what these bytes mean
            if expect == "supported":
                okt, t_bp = safe(R.bp_tree, s, ci, m2, "observable")
                if not okt:
                    ctx.fail("oracle", f"observing the decoded betterproto message raised {t_bp!r} ({label})", input=inp)
                else:
                    t_ro = R.ref_tree(rs, ci, ref2, "observable")
                    d = R.tree_diff(t_bp, t_ro)
                    if d:
                        ctx.fail("oracle", f"betterproto and the reference decode the same bytes differently ({label}): betterproto vs reference at {d}",
                                 input=inp, expected_reference=repr(t_ro)[:1500], observed_betterproto=repr(t_bp)[:1500])
        elif expect == "supported":
            ctx.fail("oracle", f"betterproto rejects bytes the reference accepts ({label}): {m2!r}", input=inp)
        cases.append(c)
        ctx.count("decode:" + label.split(":")[0])
        for k in kinds:
            ctx.count("reencode:" + k)
        if bs:
            ctx.seen_nontrivial((si, ci, bs))

    # ------------------------------------------------------------------ regression corpus first
    corpus = json.load(open(os.path.join(lib.VERIF, "corpus", "C02.json")))["inputs"]
    names = {c.name: i for i, c in enumerate(schemas[0].classes)}
    if refs[0] is not None:
        for e in corpus:
            add_decode_case(0, names[e["class"]], bytes.fromhex(e["hex"]), "corpus:" + e["what"], expect=e["expect"])

    # ------------------------------------------------------------------ generated messages
    n_per = int(os.environ.get("C02_NPER", 0)) or (26 if not ctx.thorough else 140)
    for si, s in enumerate(schemas):
        if refs[si] is None:
            continue
        k = n_per * (4 if si == 0 else 1)
        for _ in range(k):
            ci = rng.randrange(len(s.classes))
            try:
                m = msggen.gen_message(s, ci, rng, in_range=True)
                lit = msggen.obj_literal(s, m)
            except msggen.Unmodellable:
                ctx.count("unmodellable")
                continue
            except Exception as e:  # noqa
                ctx.count("construct_error:" + type(e).__name__)
                continue
            ok, b = safe(bytes, m)
            if not ok:
                ctx.count("unencodable")
                continue
            ctx.cov["evaluations"] += 1
            inp = dict(describe(si, ci), repr=repr(m)[:1500], bytes=b.hex())
            Ref = refs[si].classes[ci]
            # ---- direction 1: betterproto's bytes read by the reference
            ok, ref = safe(Ref.FromString, b)
            if not ok:
                ctx.fail("oracle", f"the reference rejects bytes(m): {ref}", input=inp)
                continue
            nz = has_neg_zero(m)
            if nz:
                ctx.count("note:negative_zero_float_in_message")
            okt, t_bp = safe(R.bp_tree, s, ci, m, "observable", True)
            if not okt:
                ctx.fail("oracle", f"observing the betterproto message raised {t_bp!r}", input=inp)
                continue
            t_ref = R.ref_tree(refs[si], ci, ref, "observable", True)
            d = R.tree_diff(t_bp, t_ref)
            if d:
                ctx.fail("oracle", f"the reference decodes bytes(m) to other values/presence than m holds: betterproto vs reference at {d}",
                         input=inp, expected_betterproto=repr(t_bp)[:1500], observed_reference=repr(t_ref)[:1500])
            # model = implementation on the encoder, and the sample of C02_encode_legal: sem (enc m) = abs m under enc_faithful
            enc_pairs.append((f"(let o := {lit} in CL [cv_bytes_res (enc_obj sc{si} o); "
                              f"(if enc_faithful sc{si} o then match enc_obj sc{si} o with Ok bs => cv_of_aval_opt (sem_bytes sc{si} {msggen.NBUILTIN + ci}%nat bs) | Err _ => CN end "
                              f"else cv_of_aval (abs_obj sc{si} o)); cv_of_aval (abs_obj sc{si} o)])",
                              f"(let o := {lit} in CL [{cb(b)}; cv_of_aval (abs_obj sc{si} o); cv_of_aval (abs_obj sc{si} o)])"))
            enc_meta.append((si, ci, inp))
            enc_lits.append((si, lit))
            add_decode_case(si, ci, b, "betterproto")
            # ---- direction 2: the reference's bytes and their re-encodings read by betterproto
            rb = ref.SerializeToString()
            t_exact = R.ref_tree(refs[si], ci, ref, "exact")
            add_decode_case(si, ci, rb, "reference", ref_expected=t_exact)
            ok, recs = safe(wiregen.read_records, rb)
            if not ok:
                ctx.fail("spec", f"wiregen cannot read the reference's serialisation: {recs!r}", input=inp)
                continue
            for _ in range(nre):
                ok, re_ = safe(wiregen.reencode, recs, s.classes[ci], rng)
                if not ok:
                    ctx.fail("spec", f"wiregen.reencode raised {re_!r}", input=inp)
                    break
                x, used = re_
                if x == rb:
                    ctx.count("reencode:identity")
                    continue
                x = limit_tag_padding(x)
                add_decode_case(si, ci, x, "reencoded", ref_expected=t_exact, kinds=tuple(sorted(used)))
            if len(ctx.cov["samples"]) < 6 and b:
                ctx.sample({"class": s.classes[ci].name, "repr": repr(m)[:300], "bytes": b.hex()[:200]})

    t_gen = time.time()
    ctx.notes.append(f"timing: generation + implementation/reference runs {t_gen - ctx.t0:.1f}s for {len(cases)} decode cases")
    # ------------------------------------------------------------------ Coq: sem / supported / model parse / abs on every decode case
    pairs = []
    for c in cases:
        sc, cls, bs = f"sc{c.si}", f"{msggen.NBUILTIN + c.ci}%nat", coq_bytes(c.bs)
        impl = f"(cv_of_obj {c.lit_after})" if c.lit_after is not None else ce("EOther")
        if c.expect == "invalid":
            pairs.append((f"(let bs := {bs} in let s := cv_of_aval_opt (sem_bytes {sc} {cls} bs) in CL [s; s; cv_obj_res (parse {sc} {cls} bs); CZ 0])",
                          cl([ce("EValue"), ce("EValue"), impl, cz(0)])))
            continue
        refcv = R.tree_cv(c.ref_exact)
        pairs.append((f"(let bs := {bs} in let s := cv_of_aval_opt (sem_bytes {sc} {cls} bs) in let r := parse {sc} {cls} bs in "
                      f"let sup := supported_bytes {sc} {cls} bs in "
                      f"CL [s; (if sup then cv_abs_res {sc} r else s); cv_obj_res r; cbool sup])",
                      cl([refcv, refcv, impl, cz(1 if c.expect == "supported" else 0)])))
    ctx.cov["evaluations"] += len(pairs)

    # the four components are compared separately on a mismatch so that a failure names its tie
    def split(i):
        m, e = pairs[i]
        return [(f"(match {m} with CL [a; b; c; d] => {sel} | x => x end)", f"(match {e} with CL [a; b; c; d] => {sel} | x => x end)")
                for sel in ("a", "b", "c", "d")]
    # the schema-level hypotheses of the theorems hold on every generated schema
    sch_pairs = [(f"cbool (wf_schema sc{i} && builtins_std sc{i})", cz(1)) for i in range(len(schemas))]
    for i in compare(ctx, "c02schemas", sch_pairs, 8, prelude):
        ctx.fail("corr", "wf_schema / builtins_std is false on a generated schema: the theorems' hypotheses do not cover what the generator builds",
                 input={"schema": schemas[i].describe()}, theorem_or_correspondence="wf_schema, builtins_std")
    ctx.count("schemas_wf_and_std", len(schemas))
    bad = compare(ctx, "c02dec", pairs, 70, prelude)
    ctx.cov["disagreements_checked"] += len(pairs)
    ctx.notes.append(f"timing: Coq evaluation of the decode cases {time.time() - t_gen:.1f}s")
    n_unsupported_generated = 0
    for i in bad[:12]:
        c = cases[i]
        inp = dict(describe(c.si, c.ci), bytes=c.bs.hex(), encoding=c.label)
        which = compare(ctx, f"c02dec_split{i}", split(i), 4, prelude)
        if 0 in which:
            ctx.fail("spec", f"T3: Spec/Wire.sem disagrees with the reference on these bytes ({c.label})", input=inp,
                     expected_reference=pairs[i][1][:3000], model_expr=pairs[i][0][:3000],
                     theorem_or_correspondence="T3 Spec/Wire.sem <-> google.protobuf")
        if 2 in which:
            ctx.fail("corr", f"T2: Model/Decode.parse and Message.parse leave different object states ({c.label})", input=inp,
                     observed_impl=str(c.lit_after)[:3000], theorem_or_correspondence="T2 Model/Decode.v <-> Message.parse")
        if 1 in which and 0 not in which and 2 not in which:
            ctx.fail("corr", f"abs (parse bs) differs from sem bs on a supported input ({c.label}): C02_decode_refines does not describe this tree",
                     input=inp, expected_reference=pairs[i][1][:3000],
                     theorem_or_correspondence="C02_decode_refines (abs_obj . parse = sem under supported)")
        if 3 in which:
            if c.expect == "supported":
                n_unsupported_generated += 1
                ctx.fail("corr", f"`supported` is false on a generated legal alternative encoding ({c.label}): the theorem's side condition excludes "
                         "an input of the property's own list", input=inp, theorem_or_correspondence="supported (Proofs/C02Abs.v)")
            else:
                ctx.fail("corr", f"`supported` is true on a scope-limit witness ({c.label})", input=inp,
                         theorem_or_correspondence="supported (Proofs/C02Abs.v)")
    ctx.count("supported_true", sum(1 for c in cases if c.expect == "supported") - n_unsupported_generated)
    ctx.count("scope_limit_witnesses", sum(1 for c in cases if c.expect == "scope"))
    # scope-limit witnesses: does betterproto really differ there? (recorded, not a failure either way)
    for c in cases:
        if c.expect == "scope" and c.impl_ok:
            s, rs = schemas[c.si], refs[c.si]
            try:
                m2 = s.classes[c.ci].py().parse(c.bs)
                d = R.tree_diff(R.bp_tree(s, c.ci, m2, "observable"), R.ref_tree(rs, c.ci, rs.classes[c.ci].FromString(c.bs), "observable"))
            except Exception as e:  # noqa
                d = f"raises {type(e).__name__}"
            ctx.notes.append(f"scope limit [{c.label}]: betterproto vs reference: {d or 'no observable difference'}")

    # ------------------------------------------------------------------ Coq: encoder side
    ctx.cov["evaluations"] += len(enc_pairs)
    bad = compare(ctx, "c02enc", enc_pairs, 60, prelude)
    ctx.cov["disagreements_checked"] += len(enc_pairs)
    for i in bad[:12]:
        si, ci, inp = enc_meta[i]
        ctx.fail("corr", "encoder side: Model/Encode.enc_obj differs from bytes(m), or sem (enc_obj m) differs from abs m under enc_faithful "
                 "(C02_encode_legal does not describe this tree)", input=inp, model_expr=enc_pairs[i][0][:3000],
                 theorem_or_correspondence="T2 Model/Encode.v <-> bytes(m); C02_encode_legal")
    # how often the side condition of the encoder-side sample holds
    ef_pairs = [(f"cbool (enc_faithful sc{si} {lit_})", cz(1)) for (si, lit_) in enc_lits]
    not_faithful = compare(ctx, "c02encf", ef_pairs, 150, prelude)
    ctx.count("enc_faithful_true", len(ef_pairs) - len(not_faithful))
    ctx.count("enc_faithful_false", len(not_faithful))
    ctx.notes.append("-0.0 in a float/double field without presence is skipped by betterproto's encoder (== default) while the reference emits it: "
                     "the decoded values still compare equal (0.0 == -0.0); counted under note:negative_zero_float_in_message")
    ctx.notes.append("a plain Timestamp/Duration field holding the epoch / a zero span is not emitted by betterproto (datetime has no presence); "
                     "the reference then reports HasField false; values compare equal")
    ctx.notes.append("tags and lengths are padded to at most 5 bytes in re-encodings: upb (and the C++ parser) read them as 32-bit varints and reject longer ones; Spec/Wire.v says so (tag_max)")
    for s in schemas:
        s.dispose()


def limit_tag_padding(x):
    """wiregen pads any varint up to 10 bytes; a tag longer than 5 bytes is rejected by the reference parsers, so
    re-canonicalise such tags (top level and inside groups; payloads of length-delimited records are left alone)"""
    out = bytearray()

    def walk(i, end_group):
        while i < len(x):
            tag, j = wiregen.read_varint(x, i)
            tb = x[i:j] if j - i <= 5 else msggen.enc_varint(tag)
            out.extend(tb)
            num, wt = tag >> 3, tag & 7
            i = j
            if wt == 0:
                _, j = wiregen.read_varint(x, i)
                out.extend(x[i:j]); i = j
            elif wt == 1:
                out.extend(x[i:i + 8]); i += 8
            elif wt == 5:
                out.extend(x[i:i + 4]); i += 4
            elif wt == 2:
                n, j = wiregen.read_varint(x, i)
                out.extend(x[i:j] if j - i <= 5 else msggen.enc_varint(n))
                out.extend(x[j:j + n]); i = j + n
            elif wt == 3:
                i = walk(i, num)
            elif wt == 4:
                return i
        return i
    try:
        walk(0, None)
        return bytes(out)
    except Exception:  # noqa
        return x


def finish(ctx):
    # a broken specification is reported as such (it fails the check) but is not a betterproto violation: it is
    # listed with kind "spec"; lib.finish treats every unclassified failure as a violation, which is what we want
    return lib.finish(
        ctx, "proof",
        "Coq theorems: betterproto's decoder (Gallina mirror) refines an independent wire-format specification on every legal byte string; "
        "the specification is validated against google.protobuf and the mirror against the implementation by executable correspondence (vm_compute)",
        ASSUMPTIONS, TRUSTED, RULE,
        extra_cov={"explanation": "theorems are unbounded (all schemas, all byte strings / record lists); T2/T3 sample schemas, values and re-encodings"})


def replay(ctx, obj):
    print(json.dumps(obj, indent=1, default=repr)[:6000])
    return 0
