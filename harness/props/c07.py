"""C07 — oneof exclusivity over histories: correspondence (T2) on every prefix of every history + oracle.

A history is a list of JSON-able op dicts (values through enc_val/dec_val, so every application works on fresh
objects and a replay file is self-contained).  After EVERY op
  * the raw state of the real object, which_one_of of every group, the outcome of reading every field and bytes(m)
    are compared with coq/Model/C07Ops.v `trace7` (vm_compute inside Coq);
  * the property itself is evaluated on the real object (on raw clones, so that observing does not disturb the
    history): which_one_of names the member the harness tracked as set last, every other member raises
    AttributeError, bytes(m) read with the independent record reader (wiregen) holds that member's number and no
    other member's, to_dict / to_pydict / to_json (all flag combinations) hold that member's key and no other
    member's, and reading the JSON back selects the same member; nested messages are checked for internal
    consistency.
After the WHOLE history (stage "gap", see gap_stage): the specification-side definitions the gap-closing theorems of
Properties/C07.v are stated over - the last-writer tracker `track` and the boolean conditions `hist_ok trk_ok`,
`forallb framed_op`, `forallb op_okb`, `hist_ok op_value_ok_p` - are evaluated inside Coq on the same operations and tied
to the real object and to a second Python tracker; where the conditions hold, the conclusion of C07_last_writer_on_wire /
_in_json / _readable is required of the implementation."""
import io
import json
import os
import pickle
import random
import re
import struct
import copy as pycopy
from concurrent.futures import ThreadPoolExecutor
from datetime import datetime, timedelta, timezone

from .. import lib, msggen, histgen, wiregen
from ..lib import cz, cb, cl, ce, CN, cbool
from ..msggen import Cls, Field, Elem, Schema, scalar, NBUILTIN, EPOCH

IMPORTS = ("Model.Types Model.Object Model.Eq Model.Encode Model.Decode Model.History Model.Canon Model.WellFormed "
           "Model.C07Ops Model.C07Json gen.Tables")
EXTRA_TARGETS = ["Model/Canon.vo", "Model/C07Ops.vo", "Model/C07Json.vo", "Model/WellFormed.vo", "Model/C07GapCv.vo"]
GAP_IMPORTS = IMPORTS + " Model.C07GapDef Model.C07GapOk Model.C07GapCv"

TRUSTED = [
    "Coq 8.16.1 kernel and vm_compute (no native_compute); full .vo build via coq_makefile",
    "axioms: none (every theorem of Properties/C07.v is 'Closed under the global context')",
    "hand-written model coq/Model/{Object,Eq,Encode,Decode,History}.v (lead) + coq/Model/C07Ops.v (construct / from_dict at the kwargs level) "
    "tied to /repo by executable correspondence (this harness): trace7j is evaluated by vm_compute inside Coq on the same histories the real "
    "objects went through; raw state, which_one_of, every attribute read, bytes(m) and the keys of to_dict (both casings, with and without "
    "include_default_values; coq/Model/Json.v of C04, read-only) are compared after every operation",
    "translator harness/gen_tables.py (type tables reflected into coq/gen/Tables.v)",
    "Python side: harness/msggen.py, histgen.py, wiregen.py (independent record reader/writer), this file's value codec, raw_clone "
    "(copies __dict__ recursively without betterproto's own copy code) and the independent 'member set last' tracker",
    "from_dict: the JSON-value conversion (Message._from_dict_init) is outside the model; the model starts from the converted kwargs, "
    "which the harness obtains through the public API (one single-key from_dict per key)",
    "specification-side definitions of the gap-closing theorems (Model/C07GapDef.v track / framed_op / trk_ok, Model/C07GapOk.v op_okb, "
    "hist_ok, op_value_ok_p): evaluated by vm_compute on every generated history (stage gap, Model/C07GapCv.v only collects the values); track is "
    "compared with _group_current / which_one_of of the real object wherever the hypotheses of C07_track_sound evaluate to true and with a "
    "Python last-writer tracker written from the property text on every history whose parses are framed; framed_op and op_okb are compared with "
    "Python readings of their definitions; whenever the conditions of C07_last_writer_on_wire / _in_json / _readable hold, their conclusion is "
    "required of the real object (schema-less record reader of this file, to_dict keys in 2-3 flag combinations, attribute reads). "
    "hist_ok trk_ok / hist_ok op_value_ok_p have no Python counterpart: their values are taken from Coq and counted; keys_distinct (a Prop, C19's "
    "subject) is not evaluated",
]
ASSUMPTIONS = [
    "Python int is Z; str is its UTF-8 bytes; float is its binary64 pattern; aware datetimes are microseconds since the epoch",
    "object identity is not modelled (values are trees): copy and deepcopy coincide in the model",
    "constructor with two members of one group: the member later in DECLARATION order is the selected one (dataclass __init__ assigns in field order); "
    "Cls.from_dict(d) is the constructor, m.from_dict(d) assigns in dict order",
]
RULE = ("histories of length 1..12 over classes with several oneof groups of scalar, string, bytes, enum, message, empty-message, datetime and "
        "timedelta members (the systematic KOneof class, a dedicated non-recursive C07 schema with nested oneofs, random schemas with groups); ops: "
        "construct with kwargs (incl. two members of one group), set member to default / non-default, set non-oneof field, nested set/get, parse of "
        "hand-built records holding 0..4 members in any order interleaved with other and unknown fields (and of random encodings), from_dict "
        "(class and instance form, merged dicts holding several members), copy, deepcopy, pickle, bytes/len/dump/==/bool. "
        "non-trivial = at least 2 ops that change a oneof selection; distinct = distinct (class, sequence of selections)")

WT = {"int32": 0, "int64": 0, "uint32": 0, "uint64": 0, "sint32": 0, "sint64": 0, "bool": 0, "enum": 0,
      "fixed64": 1, "sfixed64": 1, "double": 1, "fixed32": 5, "sfixed32": 5, "float": 5,
      "string": 2, "bytes": 2, "message": 2, "map": 2}


# --------------------------------------------------------------------------------------
# schemas
# --------------------------------------------------------------------------------------
def c07_schema():
    """non-recursive (so include_default_values=True terminates), several groups, nested oneofs"""
    enums = [[("ZERO", 0), ("ONE", 1), ("NEG", -1)]]
    leaf = Cls("Leaf", [Field("x", 1, "plain", scalar("int32")), Field("s", 2, "plain", scalar("string")),
                        Field("p", 3, "plain", scalar("bool"), group=0), Field("q", 4, "plain", scalar("bytes"), group=0)], ngroups=1)
    nil = Cls("Nil", [])
    one = Cls("One", [
        Field("a", 1, "plain", scalar("int32"), group=0),
        Field("b", 2, "plain", scalar("string"), group=0),
        Field("c", 3, "plain", Elem("msg", "message", 0), group=0),
        Field("t", 4, "plain", scalar("int32")),
        Field("d", 5, "plain", Elem("enum", "enum", 0), group=1),
        Field("e", 6, "plain", scalar("bool"), group=1),
        Field("f", 7, "plain", scalar("double"), group=1),
        Field("r", 8, "repeated", scalar("int32")),
        Field("n", 9, "plain", Elem("msg", "message", 1), group=2),
        Field("h", 10, "plain", scalar("sint64"), group=2),
        Field("k", 2047, "plain", scalar("bytes"), group=2),
        Field("w", 16, "plain", scalar("fixed32"), group=2),
        Field("o", 12, "optional", scalar("string")),
        Field("dt", 13, "plain", Elem("datetime", "message"), group=3),
        Field("td", 14, "plain", Elem("timedelta", "message"), group=3),
        Field("z", 15, "plain", Elem("msg", "message", 0), group=3),
        Field("mm", 17, "map", scalar("int32"), key=scalar("string")),
        Field("fl", 18, "plain", scalar("float"), group=1),
        Field("u64", 19, "plain", scalar("uint64"), group=0),
    ], ngroups=4)
    outer = Cls("Outer", [Field("inner", 1, "plain", Elem("msg", "message", 2)),
                          Field("u", 2, "plain", scalar("sfixed64"), group=0),
                          Field("v", 3, "plain", Elem("msg", "message", 2), group=0),
                          Field("lst", 4, "repeated", Elem("msg", "message", 0))], ngroups=1)
    return Schema([leaf, nil, one, outer], enums)


def get_schema(desc):
    if desc["kind"] == "matrix":
        return msggen.matrix_schema()
    if desc["kind"] == "c07":
        return c07_schema()
    return msggen.random_schema(random.Random(desc["seed"]))


def oneof_classes(s):
    return [ci for ci, c in enumerate(s.classes) if c.ngroups and sum(1 for f in c.fields if f.group is not None) >= 2]


# --------------------------------------------------------------------------------------
# value codec (JSON <-> fresh Python values), raw clones
# --------------------------------------------------------------------------------------
def enc_val(schema, v):
    import betterproto as bp
    if v is bp.PLACEHOLDER:
        return {"$ph": 1}
    if v is None or isinstance(v, (bool, str)):
        return v
    if isinstance(v, bp.Enum):
        return {"$e": schema.pyenums.index(type(v)), "v": int(v)}
    if isinstance(v, int):
        return int(v)
    if isinstance(v, float):
        return {"$f": msggen.f64_bits(v)}
    if isinstance(v, (bytes, bytearray)):
        return {"$b": bytes(v).hex()}
    if isinstance(v, datetime):
        return {"$dt": msggen.us_of_datetime(v)}
    if isinstance(v, timedelta):
        return {"$td": msggen.us_of_timedelta(v)}
    if isinstance(v, list):
        return {"$l": [enc_val(schema, x) for x in v]}
    if isinstance(v, dict):
        return {"$d": [[enc_val(schema, k), enc_val(schema, x)] for k, x in v.items()]}
    if isinstance(v, bp.Message):
        ci = schema.index_of[type(v)] - NBUILTIN
        d = object.__getattribute__(v, "__dict__")
        return {"$m": ci,
                "raw": {f.name: enc_val(schema, d[f.name]) for f in schema.classes[ci].fields},
                "sow": bool(d["_serialized_on_wire"]), "unk": bytes(d["_unknown_fields"]).hex(),
                "cur": dict(d["_group_current"])}
    raise msggen.Unmodellable(f"value of type {type(v)}")


def dec_val(schema, j):
    import betterproto as bp
    if isinstance(j, dict):
        if "$ph" in j:
            return bp.PLACEHOLDER
        if "$e" in j:
            return schema.pyenums[j["$e"]].try_value(j["v"])
        if "$f" in j:
            return struct.unpack("<d", struct.pack("<Q", j["$f"]))[0]
        if "$b" in j:
            return bytes.fromhex(j["$b"])
        if "$dt" in j:
            return EPOCH + timedelta(microseconds=j["$dt"])
        if "$td" in j:
            return timedelta(microseconds=j["$td"])
        if "$l" in j:
            return [dec_val(schema, x) for x in j["$l"]]
        if "$d" in j:
            return {dec_val(schema, k): dec_val(schema, x) for k, x in j["$d"]}
        if "$m" in j:
            cls = schema.classes[j["$m"]].py
            m = object.__new__(cls)
            d = object.__getattribute__(m, "__dict__")
            for name, x in j["raw"].items():
                d[name] = dec_val(schema, x)
            d["_serialized_on_wire"] = j["sow"]
            d["_unknown_fields"] = bytes.fromhex(j["unk"])
            d["_group_current"] = dict(j["cur"])
            return m
        raise ValueError(j)
    return j


def raw_clone(v):
    """structural copy of the raw state, without going through betterproto's __copy__/__deepcopy__/__init__"""
    import betterproto as bp
    if isinstance(v, bp.Message):
        new = object.__new__(type(v))
        nd = object.__getattribute__(new, "__dict__")
        for k, x in object.__getattribute__(v, "__dict__").items():
            nd[k] = raw_clone(x)
        return new
    if isinstance(v, list):
        return [raw_clone(x) for x in v]
    if isinstance(v, dict):
        return {k: raw_clone(x) for k, x in v.items()}
    return v


# --------------------------------------------------------------------------------------
# independent single-record encoder for scalar members (payloads of message members come from bytes(value))
# --------------------------------------------------------------------------------------
def record_of(f, v):
    pt = f.elem.pt if f.elem.kind in ("scalar", "enum") else "message"
    n = f.number
    if pt in ("int32", "int64", "enum"):
        return (n, 0, int(v) & ((1 << 64) - 1))
    if pt in ("uint32", "uint64"):
        return (n, 0, int(v))
    if pt == "bool":
        return (n, 0, 1 if v else 0)
    if pt in ("sint32", "sint64"):
        v = int(v)
        return (n, 0, ((v << 1) ^ (v >> 63)) & ((1 << 64) - 1))
    if pt in ("fixed32", "sfixed32"):
        return (n, 5, struct.pack("<I", int(v) & 0xFFFFFFFF))
    if pt in ("fixed64", "sfixed64"):
        return (n, 1, struct.pack("<Q", int(v) & ((1 << 64) - 1)))
    if pt == "float":
        return (n, 5, struct.pack("<f", v))
    if pt == "double":
        return (n, 1, struct.pack("<d", v))
    if pt == "string":
        return (n, 2, v.encode("utf-8"))
    if pt == "bytes":
        return (n, 2, bytes(v))
    if f.elem.kind == "datetime":
        from betterproto import _Timestamp
        return (n, 2, bytes(_Timestamp.from_datetime(v)))
    if f.elem.kind == "timedelta":
        from betterproto import _Duration
        return (n, 2, bytes(_Duration.from_timedelta(v)))
    return (n, 2, bytes(v))


def gen_member_value(schema, f, rng):
    if rng.random() < 0.4:
        return msggen.default_of(schema, f)
    return msggen.gen_field_value(schema, f, rng, 2)


# --------------------------------------------------------------------------------------
# history generation
# --------------------------------------------------------------------------------------
KINDS = (["construct"] * 2 + ["set_member"] * 6 + ["set_plain"] * 2 + ["set_nested", "set_nested", "get", "get"] + ["parse_recs"] * 3 + ["parse_rand"]
         + ["fromdict"] * 3 + ["copy", "deepcopy", "pickle", "pickle", "bytes", "len", "dump", "eq", "bool"])


def gen_op7(schema, ci, rng, ctx):
    c = schema.classes[ci]
    members = [(i, f) for i, f in enumerate(c.fields) if f.group is not None]
    plain = [(i, f) for i, f in enumerate(c.fields) if f.group is None]
    k = rng.choice(KINDS)
    if k == "construct":
        kw = {}
        p = rng.choice([0.0, 0.2, 0.5])
        for f in c.fields:
            if rng.random() < p:
                kw[f.name] = msggen.default_of(schema, f) if rng.random() < 0.3 and f.card not in ("optional", "wrapper") else msggen.gen_field_value(schema, f, rng, 2)
        if rng.random() < 0.5 and members:
            i, f = rng.choice(members)
            sib = [(j, g) for j, g in members if g.group == f.group]
            for j, g in rng.sample(sib, min(len(sib), rng.choice([1, 2, 2, 3]))):
                kw[g.name] = gen_member_value(schema, g, rng)
        return {"k": "construct", "kw": {n: enc_val(schema, v) for n, v in kw.items()}}
    if k == "set_member" and members:
        i, f = rng.choice(members)
        return {"k": "set", "path": [], "i": i, "v": enc_val(schema, gen_member_value(schema, f, rng))}
    if k == "set_plain" and plain:
        i, f = rng.choice(plain)
        v = msggen.gen_field_value(schema, f, rng, 2)      # in range: what out-of-range ints encode to is C16/C17's subject
        return {"k": "set", "path": [], "i": i, "v": enc_val(schema, v)}
    if k in ("set_nested", "get"):
        for _try in range(6):       # prefer a path below the top level (histgen draws the empty path 60% of the time)
            op = histgen.gen_op(schema, ci, rng, kinds=["set" if k == "set_nested" else "get"])
            if op.get("path") or k == "get":
                break
        if op["k"] == "set":
            op["v"] = enc_val(schema, op["v"])
        return op
    if k == "parse_recs":
        recs = []
        for _ in range(rng.choice([0, 1, 2, 2, 3, 4]) if members else 0):
            i, f = rng.choice(members)
            recs.append(record_of(f, gen_member_value(schema, f, rng)))
        for _ in range(rng.choice([0, 0, 1, 2])):
            if plain:
                i, f = rng.choice(plain)
                try:
                    b = bytes(c.py(**{f.name: msggen.gen_field_value(schema, f, rng, 2)}))
                    recs.extend(wiregen.read_records(b))
                except Exception:
                    pass
        if rng.random() < 0.4:
            recs.extend(wiregen.read_records(msggen.gen_unknown(rng, {f.number for f in c.fields}, n=1)))
        rng.shuffle(recs)
        return {"k": "parse", "bs": wiregen.write_records(recs, rng, pad=rng.random() < 0.3).hex()}
    if k == "parse_rand":
        op = histgen.gen_op(schema, ci, rng, kinds=["parse"])
        return {"k": "parse", "bs": op["bs"].hex()}
    if k == "fromdict":
        import betterproto as bp
        d = {}
        try:
            for _ in range(rng.choice([1, 1, 2, 3])):
                src = msggen.gen_message(schema, ci, rng, depth=1)
                casing = rng.choice([bp.Casing.CAMEL, bp.Casing.CAMEL, bp.Casing.SNAKE])
                part = raw_clone(src).to_dict(casing=casing, include_default_values=rng.random() < 0.2)
                items = list(d.items()) + list(part.items())
                rng.shuffle(items)
                d = dict(items)
            json.dumps(d)
        except (Exception, RecursionError):
            ctx.count("fromdict_source_error")
            return {"k": "bool"}
        return {"k": "fromdict", "inst": rng.random() < 0.5, "d": d}
    if k == "eq":
        return {"k": "eq", "other": enc_val(schema, msggen.gen_message(schema, ci, rng))}
    if k == "dump":
        return {"k": "dump", "delimit": rng.random() < 0.5}
    if k in ("copy", "deepcopy", "pickle", "bytes", "len", "bool"):
        return {"k": k}
    return {"k": "bool"}


def fromdict_kwargs(schema, ci, d):
    """[(field index, converted value)] in the order of the dict, through the public API: one single-key from_dict per key"""
    import betterproto as bp
    c = schema.classes[ci]
    out = {}
    for key, val in d.items():
        o = c.py.from_dict({key: val})
        dd = object.__getattribute__(o, "__dict__")
        for i, f in enumerate(c.fields):
            x = dd[f.name]
            if x is bp.PLACEHOLDER or (x is None and f.card in ("optional", "wrapper")):
                continue
            out[i] = x      # a repeated key keeps its position and takes the later value, as a dict does
    return list(out.items())


def apply7(schema, ci, m, op):
    """run one op on the real object; returns (object to continue with, output)"""
    import betterproto as bp
    c = schema.classes[ci]
    k = op["k"]
    if k == "construct":
        return c.py(**{n: dec_val(schema, v) for n, v in op["kw"].items()}), None
    if k == "fromdict":
        if op["inst"]:
            return m.from_dict(op["d"]), None
        return c.py.from_dict(op["d"]), None
    if k == "set":
        holder, cur = histgen.walk(schema, ci, m, op["path"])
        setattr(holder, schema.classes[cur].fields[op["i"]].name, dec_val(schema, op["v"]))
        return m, None
    if k == "parse":
        m.parse(bytes.fromhex(op["bs"]))
        return m, None
    if k == "eq":
        return m, (m == dec_val(schema, op["other"]))
    return histgen.apply_op(schema, ci, m, op)


def coq_op7(schema, ci, op):
    k = op["k"]
    if k == "construct":
        names = [f.name for f in schema.classes[ci].fields]
        kw = [(names.index(n), dec_val(schema, v)) for n, v in op["kw"].items()]
        return "(OConstruct [" + "; ".join(f"({i}%nat, {msggen.pv_literal(schema, v)})" for i, v in kw) + "])"
    if k == "fromdict":
        kw = fromdict_kwargs(schema, ci, op["d"])
        body = "[" + "; ".join(f"({i}%nat, {msggen.pv_literal(schema, v)})" for i, v in kw) + "]"
        return f"({'OFromDictInst' if op['inst'] else 'OFromDictCls'} {body})"
    if k == "set":
        return f"(OBase (OSet {histgen.nat_list(op['path'])} {op['i']}%nat {msggen.pv_literal(schema, dec_val(schema, op['v']))}))"
    if k == "parse":
        return f"(OBase (OParse {lib.coq_bytes(bytes.fromhex(op['bs']))}))"
    if k == "eq":
        return f"(OBase (OEq {msggen.obj_literal(schema, dec_val(schema, op['other']))}))"
    return f"(OBase {histgen.coq_op(schema, op)})"


# --------------------------------------------------------------------------------------
# the independent tracker of "the member set last"
# --------------------------------------------------------------------------------------
def track(schema, ci, exp, op):
    """exp: list (per group) of field index | None | '?' (unknown: malformed input was accepted)"""
    c = schema.classes[ci]
    k = op["k"]
    exp = list(exp)
    if k == "construct":
        exp = [None] * c.ngroups
        for i, f in enumerate(c.fields):                      # declaration order: the later member wins
            if f.group is not None and f.name in op["kw"]:
                exp[f.group] = i
    elif k == "fromdict":
        kw = fromdict_kwargs(schema, ci, op["d"])
        if op["inst"]:
            for i, _ in kw:                                   # assignments in dict order
                if c.fields[i].group is not None:
                    exp[c.fields[i].group] = i
        else:
            exp = [None] * c.ngroups
            present = {i for i, _ in kw}
            for i, f in enumerate(c.fields):
                if f.group is not None and i in present:
                    exp[f.group] = i
    elif k == "set" and not op["path"]:
        f = c.fields[op["i"]]
        if f.group is not None:
            exp[f.group] = op["i"]
    elif k == "parse":
        by_num = {f.number: (i, f) for i, f in enumerate(c.fields)}
        try:
            recs = wiregen.read_records(bytes.fromhex(op["bs"]))
        except wiregen.WireError:
            return ["?"] * c.ngroups
        for num, wt, _ in recs:
            if num in by_num:
                i, f = by_num[num]
                if f.group is not None and wt == WT[f.proto_type]:
                    exp[f.group] = i
    return exp


# --------------------------------------------------------------------------------------
# oracle: the property on the real object
# --------------------------------------------------------------------------------------
def readable(m, name):
    try:
        getattr(raw_clone(m), name)
        return True
    except AttributeError:
        return False


def member_numbers_in(b):
    return [r[0] for r in wiregen.read_records(b)]


def consistency(schema, ci, m, path, problems, depth=0):
    """internal consistency of any message (used for nested values): per group at most one readable member, it is the one
    which_one_of names, and the encoding holds its number and no other member's"""
    import betterproto as bp
    c = schema.classes[ci]
    try:
        nums = member_numbers_in(bytes(raw_clone(m)))
    except Exception:
        nums = None
    for g in range(c.ngroups):
        mem = [f for f in c.fields if f.group == g]
        try:
            name = bp.which_one_of(raw_clone(m), f"g{g}")[0]
        except Exception as e:
            name = f"<raises {type(e).__name__}>"
        rd = [f.name for f in mem if readable(m, f.name)]
        if rd != ([name] if name else []):
            problems.append(("nested-readable", f"{path}: group g{g}: which_one_of says {name!r} but readable members are {rd}"))
        if nums is not None:
            present = sorted({f.name for f in mem if f.number in nums})
            if present != ([name] if name else []):
                problems.append(("nested-bytes", f"{path}: group g{g}: which_one_of says {name!r} but bytes hold members {present}"))
    if depth >= 3:
        return
    for f in c.fields:
        if f.elem.kind != "msg" or not readable(m, f.name):
            continue
        v = object.__getattribute__(m, f.name)
        subs = v if isinstance(v, list) else list(v.values()) if isinstance(v, dict) else [v]
        for x in subs:
            if isinstance(x, bp.Message):
                consistency(schema, f.elem.ref, x, f"{path}.{f.name}", problems, depth + 1)


def is_recursive(schema, ci):
    """does class ci reach a cycle through message-typed fields?  (include_default_values=True does not terminate there)"""
    cache = schema.__dict__.setdefault("_c07_rec", {})
    if ci not in cache:
        def reach(start):
            seen, todo = set(), [start]
            while todo:
                x = todo.pop()
                for f in schema.classes[x].fields:
                    if f.elem.kind == "msg" and f.elem.ref not in seen:
                        seen.add(f.elem.ref)
                        todo.append(f.elem.ref)
            return seen
        r = reach(ci)
        cache[ci] = any(x in reach(x) for x in r | {ci})
    return cache[ci]


def incl_ok(schema, ci):
    return "false" if is_recursive(schema, ci) else "true"


def oracle(schema, ci, m, exp, ctx, rng=None):
    """returns [(cls, text)] — the violated clauses of C07 on the real object m, exp = tracked selections"""
    import betterproto as bp
    c = schema.classes[ci]
    problems = []
    groups = []
    for g in range(c.ngroups):
        mem = [(i, f) for i, f in enumerate(c.fields) if f.group == g]
        if exp[g] == "?":
            continue
        want = c.fields[exp[g]].name if exp[g] is not None else ""
        groups.append((g, mem, want))
        try:
            name = bp.which_one_of(raw_clone(m), f"g{g}")[0]
        except Exception as e:
            name = f"<raises {type(e).__name__}>"
        if name != want:
            problems.append(("which", f"group g{g}: member set last is {want!r} but which_one_of names {name!r}"))
        for i, f in mem:
            r = readable(m, f.name)
            if r and f.name != want:
                problems.append(("read", f"group g{g}: reading {f.name!r} succeeds although {want!r} is the selected member"))
            if not r and f.name == want:
                problems.append(("read", f"group g{g}: reading the selected member {f.name!r} raises AttributeError"))
    # ---- encoding
    try:
        b = bytes(raw_clone(m))
    except Exception:
        b = None
        ctx.count("oracle_unencodable")
    if b is not None:
        try:
            nums = member_numbers_in(b)
            for g, mem, want in groups:
                present = sorted({f.name for i, f in mem if f.number in nums})
                if present != ([want] if want else []):
                    problems.append(("bytes", f"group g{g}: selected {want!r} but bytes(m)={b.hex()} holds records of members {present}"))
        except wiregen.WireError as e:
            problems.append(("bytes", f"bytes(m)={b.hex()} is not a well-formed record sequence: {e}"))
    # ---- JSON
    all_flags = [{}, {"include_default_values": True}, {"casing": bp.Casing.SNAKE}, {"casing": bp.Casing.SNAKE, "include_default_values": True}]
    extra = (rng or random).randrange(4)
    for fi, flags in enumerate(all_flags):
        casing = flags.get("casing", bp.Casing.CAMEL)
        tag = "json-defaults" if flags.get("include_default_values") else "json"
        if flags.get("include_default_values") and is_recursive(schema, ci):
            ctx.count("json_skipped(include_default_values on a recursive type does not terminate)")
            continue
        for meth in (("to_dict", "to_pydict", "to_json") if fi == extra else ("to_dict",)):
            try:
                if meth == "to_json":
                    d = json.loads(raw_clone(m).to_json(**flags))
                else:
                    d = getattr(raw_clone(m), meth)(**flags)
            except RecursionError:
                ctx.count("json_recursion(include_default_values on a recursive type)")
                continue
            except Exception as e:
                ctx.count(f"json_error:{meth}:{type(e).__name__}")
                continue
            ctx.count("json_outputs_checked")
            for g, mem, want in groups:
                present = sorted({f.name for i, f in mem if casing(f.name).rstrip("_") in d})
                if present != ([want] if want else []):
                    problems.append((tag, f"group g{g}: selected {want!r} but {meth}({flags_str(flags)}) holds keys of members {present}"))
            if meth == "to_dict":
                try:
                    back = c.py.from_dict(d)
                except Exception as e:
                    ctx.count(f"json_back_error:{type(e).__name__}")
                    continue
                for g, mem, want in groups:
                    try:
                        name = bp.which_one_of(back, f"g{g}")[0]
                    except Exception as e:
                        name = f"<raises {type(e).__name__}>"
                    if name != want:
                        problems.append((tag, f"group g{g}: selected {want!r}; from_dict(to_dict({flags_str(flags)})) selects {name!r}"))
    # ---- nested values
    consistency(schema, ci, m, "m", problems)
    return problems


def flags_str(flags):
    return ", ".join(f"{k}={'True' if v is True else getattr(v, '__name__', v)}" for k, v in flags.items())


# --------------------------------------------------------------------------------------
# running one history: expected snapshots + oracle
# --------------------------------------------------------------------------------------
def expected_snapshot(schema, ci, m, out, op):
    import betterproto as bp
    c = schema.classes[ci]
    lit = msggen.obj_literal(schema, m)
    whichs = []
    for g in range(c.ngroups):
        try:
            name = bp.which_one_of(raw_clone(m), f"g{g}")[0]
            whichs.append(cz([f.name for f in c.fields].index(name)) if name else CN)
        except Exception:
            whichs.append(ce("EOther"))
    reads = []
    for f in c.fields:
        cln = raw_clone(m)
        try:
            reads.append(f"(cv_of_pv {msggen.pv_literal(schema, getattr(cln, f.name))})")
        except AttributeError:
            reads.append(ce("EOther"))
    try:
        bts = cb(bytes(raw_clone(m)))
    except Exception:
        bts = ce("EOther")
    k = op["k"]
    if k == "get":
        o = ce("EOther") if isinstance(out, AttributeError) else f"(cv_of_pv {msggen.pv_literal(schema, out)})"
    elif k == "dump" and op.get("delimit"):
        n, i = wiregen.read_varint(out, 0)      # History.step reports the payload; the prefix is C09/C10's subject
        o = cb(out[i:]) if n == len(out) - i else ce("EOther")
    elif k in ("bytes", "dump"):
        o = cb(out)
    elif k == "len":
        o = cz(out)
    elif k in ("eq", "bool"):
        o = cbool(bool(out))
    else:
        o = CN
    base = cl([f"(cv_of_obj {lit})", cl(whichs), cl(reads), bts, o])

    def keys(**flags):
        try:
            return cl([cb(k.encode("utf-8")) for k in raw_clone(m).to_dict(**flags).keys()])
        except Exception:
            return ce("EOther")
    return cl([base, keys(), keys(casing=bp.Casing.SNAKE),
               CN if is_recursive(schema, ci) else keys(include_default_values=True)])


def top_selection(schema, ci, m):
    """what the property says about the oneof groups of m itself, read from the object (not from a clone): per group
    (which_one_of, tuple of 'member is readable')"""
    import betterproto as bp
    c = schema.classes[ci]
    out = []
    for g in range(c.ngroups):
        try:
            name = bp.which_one_of(m, f"g{g}")[0]
        except Exception as e:
            name = f"<raises {type(e).__name__}>"
        reads = []
        for f in c.fields:
            if f.group == g:
                try:
                    getattr(m, f.name)
                    reads.append((f.name, True))
                except AttributeError:
                    reads.append((f.name, False))
                except Exception as e:
                    reads.append((f.name, type(e).__name__))
        out.append((name, tuple(reads)))
    return out


def run_history(schema, ci, ops, ctx, count=True, rng=None, gap=None):
    """executes ops on a real object starting from Cls(); returns (coq op literals, expected snapshots, oracle problems, selections)
    problems: list of (step, cls, text); the history is cut after an op that raises (expected CE EOther).
    gap (a dict, optional) receives n_ok = the number of operations that were applied and observed, and final = a raw clone of the
    object after them (an operation that raises may leave the object half-changed: the clone is taken before)."""
    c = schema.classes[ci]
    m = c.py()
    exp = [None] * c.ngroups
    coq_ops, snaps, problems, sels = [], [], [], []
    left_behind = []     # originals of copy / deepcopy / pickle: the history goes on with the copy, the original must keep its selections
    for step, op in enumerate(ops):
        try:
            lit = coq_op7(schema, ci, op)
        except msggen.Unmodellable:
            if count:
                ctx.count("unmodellable_op")
            break
        except Exception as e:
            if count:
                ctx.count(f"op_unprintable:{type(e).__name__}")
            break
        coq_ops.append(lit)
        try:
            new_exp = track(schema, ci, exp, op)
        except Exception:
            new_exp = ["?"] * c.ngroups
        before = m
        try:
            m, out = apply7(schema, ci, m, op)
        except Exception as e:
            if count:
                ctx.count(f"op_raises:{op['k']}:{type(e).__name__}")
            snaps.append(ce("EOther"))
            break
        exp = new_exp
        if op["k"] in ("copy", "deepcopy", "pickle") and m is not before:
            try:
                left_behind.append((step, op["k"], before, top_selection(schema, ci, before)))
            except Exception:
                pass
        else:
            # an operation on the copy must not change what the original reports for its own oneof groups (a shallow copy
            # shares nested messages with the original, never the selection table or the member slots)
            for s0, kind, orig, sel0 in left_behind:
                try:
                    now = top_selection(schema, ci, orig)
                except Exception as e:
                    now = f"<raises {type(e).__name__}>"
                if now != sel0:
                    problems.append((step, "copy-alias", f"after {kind} at step {s0}, operation {op['k']} on the copy changed the ORIGINAL's oneof "
                                     f"state: was {sel0}, now {now}"))
                    break
            if count and left_behind:
                ctx.count("left_behind_originals_rechecked", len(left_behind))
        if count:
            ctx.count("op:" + op["k"] + (":inst" if op.get("inst") else "") + (":nested" if op.get("path") else ""))
        try:
            snaps.append(expected_snapshot(schema, ci, m, out, op))
        except msggen.Unmodellable:
            coq_ops.pop()
            if count:
                ctx.count("unmodellable_state")
            break
        except Exception as e:
            coq_ops.pop()
            problems.append((step, "observe-crash", f"observing the object (raw state / which_one_of / reads / bytes) raised {type(e).__name__}: {e}"))
            break
        if gap is not None:
            try:
                gap["final"] = raw_clone(m)
                gap["n_ok"] = len(coq_ops)
            except Exception:
                pass
        try:
            for cls_, text in oracle(schema, ci, m, exp, ctx, rng):
                problems.append((step, cls_, text))
        except Exception as e:
            problems.append((step, "oracle-crash", f"evaluating the property raised {type(e).__name__}: {e}"))
        sels.append(tuple(exp))
        if count:
            # the decidable side condition of C07_observable / C07_json_observable (selected member holds a value):
            # how often do generated states meet it?  (C07_selected_values_reachable proves it for op_ok histories)
            try:
                import betterproto as bp
                ok = True
                for g in range(c.ngroups):
                    name = object.__getattribute__(m, "_group_current").get(f"g{g}")
                    if name is not None:
                        v = object.__getattribute__(m, name)
                        if v is None or isinstance(v, (list, dict)):
                            ok = False
                ctx.count("side_condition:selected_values_ok:" + ("met" if ok else "NOT met"))
            except Exception:
                ctx.count("side_condition:selected_values_ok:unknown")
        if problems:
            break
    return coq_ops, snaps, problems, sels


def shrink(schema, ci, ops, ctx, key):
    """greedy removal of ops while a problem of the same class persists"""
    ops = list(ops)
    i = 0
    budget = 60
    while i < len(ops) and budget > 0:
        budget -= 1
        cand = ops[:i] + ops[i + 1:]
        try:
            _, _, pr, _ = run_history(schema, ci, cand, ctx, count=False)
        except Exception:
            pr = []
        if pr and pr[0][1] == key:
            ops = cand[:pr[0][0] + 1]
        else:
            i += 1
    return ops


# --------------------------------------------------------------------------------------
# stage "gap": the specification-side definitions of the gap-closing theorems (Model/C07GapDef.v, C07GapOk.v) tied to the run
#   * the Coq last-writer tracker `track sc c ops` against (a) _group_current / which_one_of of the real object after the history
#     and (b) the last-writer tracker below, written from the property text;
#   * the boolean side conditions `hist_ok trk_ok`, `forallb framed_op`, `forallb op_okb`, `hist_ok op_value_ok_p` evaluated by
#     vm_compute on the same histories (framed_op and op_okb also against Python readings of their definitions);
#   * whenever they hold, what C07_last_writer_on_wire / _in_json / _readable state is REQUIRED of the real object: for every
#     group, bytes(m) read by a schema-less record reader, the keys of to_dict(m) and the attribute reads name exactly the member
#     the Python tracker names.
# --------------------------------------------------------------------------------------
GAP_FLAGS = ("hist_ok trk_ok", "forallb framed_op", "forallb op_okb", "hist_ok op_value_ok_p", "run7 is Ok")


def sl_varint(bs, i):
    """a varint is read up to and including the first byte below 128, whatever its length (no 10-byte limit)"""
    val, shift = 0, 0
    while True:
        if i >= len(bs):
            return None
        b = bs[i]
        i += 1
        if b < 128:
            return val + (b << shift), i
        val += (b - 128) << shift
        shift += 7


def sl_records(bs):
    """what a reader that knows no schema sees: [(field number, wire type)] or None; wire types 0 1 2 5 only, field number >= 1"""
    out, i = [], 0
    while i < len(bs):
        r = sl_varint(bs, i)
        if r is None:
            return None
        tag, i = r
        num, wt = tag >> 3, tag & 7
        if num < 1:
            return None
        if wt == 0:
            r = sl_varint(bs, i)
            if r is None:
                return None
            i = r[1]
        elif wt == 1:
            i += 8
        elif wt == 5:
            i += 4
        elif wt == 2:
            r = sl_varint(bs, i)
            if r is None:
                return None
            i = r[1] + r[0]
        else:
            return None
        if i > len(bs):
            return None
        out.append((num, wt))
    return out


def lw_track(schema, ci, ops):
    """the member of every group that the history set last, read off the operations alone (property text: "which_one_of names the
    member set last (or none)"; constructor arguments count in declaration order, dict loads into an existing message in dict order,
    a decode in stream order).  Returns a list (per group) of field index | None, or the string 'unframed' when a decode was given
    bytes that are not a sequence of records (the text says nothing about those)."""
    import betterproto as bp
    c = schema.classes[ci]
    last = [None] * c.ngroups

    def given_ctor(indices):
        sel = [None] * c.ngroups
        for i, f in enumerate(c.fields):
            if f.group is not None and i in indices:
                sel[f.group] = i
        return sel

    for op in ops:
        k = op["k"]
        if k == "construct":
            names = {n for n, v in op["kw"].items() if dec_val(schema, v) is not bp.PLACEHOLDER}
            last = given_ctor({i for i, f in enumerate(c.fields) if f.name in names})
        elif k == "fromdict":
            kw = fromdict_kwargs(schema, ci, op["d"])
            if op["inst"]:
                for i, _ in kw:
                    if c.fields[i].group is not None:
                        last[c.fields[i].group] = i
            else:
                last = given_ctor({i for i, _ in kw})
        elif k == "set":
            if not op["path"] and c.fields[op["i"]].group is not None:
                last[c.fields[op["i"]].group] = op["i"]
        elif k == "parse":
            recs = sl_records(bytes.fromhex(op["bs"]))
            if recs is None:
                return "unframed"
            for num, wt in recs:
                hit = None
                for i, f in enumerate(c.fields):
                    if f.number == num:
                        hit = (i, f)
                if hit and hit[1].group is not None and wt == WT[hit[1].proto_type]:
                    last[hit[1].group] = hit[0]
    return last


def py_framed(ops):
    return all(sl_records(bytes.fromhex(op["bs"])) is not None for op in ops if op["k"] == "parse")


def py_op_ok(schema, ci, ops):
    """every value handed to a oneof member (assignment, keyword argument, dict entry) is a value: not None, not a list, not a dict"""
    c = schema.classes[ci]

    def bad(i, v):
        return c.fields[i].group is not None and (v is None or isinstance(v, (list, dict)))
    names = [f.name for f in c.fields]
    for op in ops:
        k = op["k"]
        if k == "set" and not op["path"] and bad(op["i"], dec_val(schema, op["v"])):
            return False
        if k == "construct" and any(bad(names.index(n), dec_val(schema, v)) for n, v in op["kw"].items()):
            return False
        if k == "fromdict" and any(bad(i, v) for i, v in fromdict_kwargs(schema, ci, op["d"])):
            return False
    return True


def coq_values(ctx, name, imports, exprs, prelude="", chunk=24, workers=None):
    """exprs: Gallina expressions of type list Z; returns their values (vm_compute inside Coq, sharded), fails closed"""
    if not exprs:
        return []
    lib.ensure_built(imports)

    def one(args):
        path, part = args
        with open(path, "w") as f:
            f.write(f"From BP Require Import Base.Prelude {imports}.\nSet Printing Depth 1000000.\nSet Printing Width 1000.\n")
            f.write(prelude + "\n")
            f.write("Definition gapexprs : list (list Z) := [\n" + ";\n".join(part) + "\n].\n")
            f.write("Definition gapvals := Eval vm_compute in gapexprs.\nPrint gapvals.\n")
        rc, out = lib.run(["coqc", "-Q", lib.COQ, "BP", path], timeout=1800)
        if rc != 0:
            raise RuntimeError(f"evaluation of the side conditions failed in {name}: {out[-3000:]}")
        mm = re.search(r"gapvals\s*=\s*(.*?)\s*:\s*list \(list Z\)", out, re.S)
        if not mm or "..." in mm.group(1):
            raise RuntimeError(f"evaluation of the side conditions: unreadable answer in {name}: {out[-2000:]}")
        rows = [[int(x) for x in re.findall(r"-?\d+", r)] for r in re.findall(r"\[([^\[\]]*)\]", mm.group(1).replace("%Z", ""))]
        if len(rows) != len(part):
            raise RuntimeError(f"evaluation of the side conditions: {len(part)} expressions but {len(rows)} answers in {name}")
        return rows
    jobs = [(os.path.join(ctx.work, f"{name}_{k}.v"), exprs[st:st + chunk]) for k, st in enumerate(range(0, len(exprs), chunk))]
    vals = []
    with ThreadPoolExecutor(max_workers=workers or lib.JOBS) as ex:
        for rows in ex.map(one, jobs):
            vals.extend(rows)
    return vals


def gap_observe(schema, ci, fin):
    """the real object after the history, per group: (_group_current, which_one_of, members whose number is among the records of
    bytes(m), {label: members whose key is in to_dict(...)}, readable members) - names; None where not obtainable"""
    import betterproto as bp
    c = schema.classes[ci]
    try:
        recs = sl_records(bytes(raw_clone(fin)))
        nums = None if recs is None else {n for n, _ in recs}
        unreadable = recs is None
    except Exception:
        nums, unreadable = None, False
    dicts = {}
    variants = [("to_dict()", {}), ("to_dict(casing=SNAKE)", {"casing": bp.Casing.SNAKE})]
    if not is_recursive(schema, ci):
        variants.append(("to_dict(include_default_values=True)", {"include_default_values": True}))
    for label, flags in variants:
        try:
            dicts[label] = (flags.get("casing", bp.Casing.CAMEL), raw_clone(fin).to_dict(**flags))
        except Exception:
            pass
    cur = object.__getattribute__(fin, "_group_current")
    out = []
    for g in range(c.ngroups):
        mem = [f for f in c.fields if f.group == g]
        try:
            which = bp.which_one_of(raw_clone(fin), f"g{g}")[0]
        except Exception as e:
            which = f"<raises {type(e).__name__}>"
        out.append({"cur": cur.get(f"g{g}") or "", "which": which,
                    "bytes": None if nums is None else sorted(f.name for f in mem if f.number in nums),
                    "json": {label: sorted(f.name for f in mem if casing(f.name).rstrip("_") in d) for label, (casing, d) in dicts.items()},
                    "read": sorted(f.name for f in mem if readable(fin, f.name))})
    return out, unreadable


# hand-written histories for this stage only (class One of c07_schema; they do not go through the per-step oracle, whose tracker
# comparison is unconditional): the side of every condition that random histories rarely or never reach, with the value the
# condition must take.  The first is the witness of C07_pickle_selection_refuted run on the real implementation.
GAP_CORPUS = [
    ("none-then-pickle", [{"k": "set", "path": [], "i": 0, "v": None}, {"k": "pickle"}],
     {"forallb op_okb": False, "hist_ok trk_ok": False, "forallb framed_op": True}),
    ("ctor-none", [{"k": "construct", "kw": {"a": None, "t": 3}}, {"k": "copy"}],
     {"forallb op_okb": False, "forallb framed_op": True}),
    ("group-wire-type", [{"k": "set", "path": [], "i": 1, "v": "x"}, {"k": "parse", "bs": "0b0c"}],
     {"forallb framed_op": False, "hist_ok trk_ok": False, "forallb op_okb": True}),
    ("default-then-pickle", [{"k": "set", "path": [], "i": 0, "v": 0}, {"k": "pickle"}, {"k": "set", "path": [], "i": 5, "v": False}],
     {"forallb op_okb": True, "hist_ok trk_ok": True, "forallb framed_op": True, "hist_ok op_value_ok_p": True}),
]
GAP_EXPECT = {"gap-corpus:" + n: e for n, _, e in GAP_CORPUS}


def gap_corpus_items(ctx, schemas, kept):
    si = next((i for i, d in enumerate(kept) if d["kind"] == "c07"), None)
    if si is None:
        return []
    s = schemas[si]
    ci = [c.name for c in s.classes].index("One")
    items = []
    for name, ops, _ in GAP_CORPUS:
        m = s.classes[ci].py()
        done, lits = [], []
        for op in ops:
            try:
                lit = coq_op7(s, ci, op)
                m2, _out = apply7(s, ci, raw_clone(m), op)
            except Exception as e:
                ctx.count(f"gap:corpus_op_raises:{name}:{op['k']}:{type(e).__name__}")
                break
            m = m2
            done.append(op)
            lits.append(lit)
        if done:
            items.append((si, ci, done, lits, raw_clone(m), "gap-corpus:" + name))
            ctx.count("gap:corpus_histories")
    return items


def gap_stage(ctx, schemas, kept, items, prelude, count=True, name="c07gap"):
    """items: [(si, ci, ops, coq op literals, final object, origin)]; returns the list of failures (kind, cls, what, input)"""
    fails = []
    if not items:
        return fails
    sis = sorted({it[0] for it in items})
    exprs = [f"gap_schema sc{si}" for si in sis]
    exprs += [f"gap_eval sc{si} {ci + NBUILTIN}%nat [{'; '.join(coq_ops)}]" for si, ci, ops, coq_ops, fin, origin in items]
    vals = coq_values(ctx, name, GAP_IMPORTS, exprs, prelude=prelude, chunk=24, workers=max(2, lib.JOBS // 2))
    schema_ok = {si: bool(v[0]) for si, v in zip(sis, vals)}
    vals = vals[len(sis):]

    def cnt(key, n=1):
        if count:
            ctx.count("gap:" + key, n)

    def inp(si, ci, ops, origin, **kw):
        s = schemas[si]
        d = {"schema": kept[si], "class": ci, "class_name": s.classes[ci].name, "fields": s.describe()[s.classes[ci].name], "ops": ops,
             "origin": origin, "stage": "gap"}
        d.update(kw)
        return d
    for si in sis:
        cnt("schema:c01_schema_ok:" + ("held" if schema_ok[si] else "violated"))
    for (si, ci, ops, coq_ops, fin, origin), v in zip(items, vals):
        s = schemas[si]
        c = s.classes[ci]
        names = [f.name for f in c.fields]
        if len(v) != len(GAP_FLAGS) + c.ngroups:
            fails.append(("corr", None, f"track sc c ops has {len(v) - len(GAP_FLAGS)} entries but the class has {c.ngroups} oneof groups",
                          inp(si, ci, ops, origin)))
            continue
        t_ok, framed, okb, val_ok, run_ok = (bool(x) for x in v[:len(GAP_FLAGS)])
        coq_trk = [names[x - 1] if x else "" for x in v[len(GAP_FLAGS):]]
        cnt("histories_evaluated")
        for label, b in zip(GAP_FLAGS, (t_ok, framed, okb, val_ok, run_ok)):
            cnt(f"cond:{label}:" + ("held" if b else "violated"))
        for label, b in zip(GAP_FLAGS, (t_ok, framed, okb, val_ok, run_ok)):
            want_b = GAP_EXPECT.get(origin, {}).get(label)
            if want_b is not None and len(ops) == len(next(o for n, o, _ in GAP_CORPUS if "gap-corpus:" + n == origin)):
                cnt("corpus_condition_values_checked")
                if want_b != b:
                    fails.append(("corr", None, f"condition {label} evaluates to {b} on the hand-written history {origin}, which must "
                                  f"{'meet' if want_b else 'violate'} it", inp(si, ci, ops, origin)))
        if not run_ok:
            fails.append(("corr", None, "run7 of the model is Err on a history every operation of which succeeded on the implementation",
                          inp(si, ci, ops, origin)))
            continue
        # ---- Python readings of the two conditions that are functions of the operations alone
        try:
            pf, pk = py_framed(ops), py_op_ok(s, ci, ops)
        except Exception as e:
            fails.append(("corr", None, f"evaluating the conditions on the Python side raised {type(e).__name__}: {e}", inp(si, ci, ops, origin)))
            continue
        cnt("conditions_compared_with_python_reading", 2)
        if pf != framed:
            fails.append(("corr", None, f"forallb framed_op is {framed} in Coq but the Python schema-less reader says {pf}", inp(si, ci, ops, origin)))
        if pk != okb:
            fails.append(("corr", None, f"forallb op_okb is {okb} in Coq but the Python reading of the condition says {pk}", inp(si, ci, ops, origin)))
        # ---- the trackers
        try:
            py_trk = lw_track(s, ci, ops)
        except Exception as e:
            fails.append(("corr", None, f"the Python last-writer tracker raised {type(e).__name__}: {e}", inp(si, ci, ops, origin)))
            continue
        if py_trk == "unframed":
            cnt("track_vs_python_tracker:skipped(unframed parse)")
            py_names = None
        else:
            py_names = [names[i] if i is not None else "" for i in py_trk]
            cnt("track_vs_python_tracker:compared")
            cnt("track_vs_python_tracker:groups", c.ngroups)
            if py_names != coq_trk:
                fails.append(("corr", None, "the Coq last-writer tracker (track, Model/C07GapDef.v) and the Python last-writer tracker disagree",
                              inp(si, ci, ops, origin, coq_track=coq_trk, python_tracker=py_names)))
        try:
            obs, unreadable = gap_observe(s, ci, fin)
        except Exception as e:
            fails.append(("oracle", "gap-observe", f"observing the object after the history raised {type(e).__name__}: {e}", inp(si, ci, ops, origin)))
            continue
        impl_cur = [o["cur"] for o in obs]
        impl_which = [o["which"] for o in obs]
        thm_track = schema_ok[si] and t_ok                 # hypotheses of C07_track_sound
        if thm_track:
            cnt("track_vs_group_current:compared(hypotheses of C07_track_sound hold)")
            cnt("track_vs_group_current:groups", c.ngroups)
            if impl_cur != coq_trk or impl_which != coq_trk:
                fails.append(("corr", None, "hist_ok trk_ok holds but the Coq last-writer tracker (track) differs from _group_current / which_one_of "
                              "of the real object after the history (C07_track_sound)",
                              inp(si, ci, ops, origin, coq_track=coq_trk, group_current=impl_cur, which_one_of=impl_which)))
        else:
            same = impl_cur == coq_trk and impl_which == coq_trk
            why = "a parse is not framed: the tracker skips it" if not framed else "pickle condition, cf. C07_pickle_selection_refuted"
            cnt("track_vs_group_current:outside the hypotheses:" + ("agree" if same else f"DIFFER (allowed; {why})"))
            if not same and framed and py_names is not None and py_names == coq_trk and count:
                # both trackers say one thing and the object another although every parse is framed: the implementation shows the
                # behaviour of the refuting witness (a selection lost in a pickle round trip); recorded, not a failure of this stage
                ctx.sample({"gap": "selection differs from the last writer outside hist_ok trk_ok", "class": c.name,
                            "ops": [o["k"] for o in ops], "tracker": coq_trk, "which_one_of": impl_which})
        # ---- the composed statements, required of the implementation
        need = schema_ok[si] and framed and okb and (t_ok or val_ok)
        cnt("cond:all(c01_schema_ok, trk_ok | op_value_ok_p, framed_op, op_okb):" + ("held" if need else "violated"))
        if val_ok and framed and not t_ok:
            cnt("cond:op_value_ok_p and framed_op but not trk_ok")
        if not need or py_names is None:
            continue
        cnt("last_writer_oracle:histories")
        for g, o in enumerate(obs):
            want = [py_names[g]] if py_names[g] else []
            cnt("last_writer_oracle:groups")
            if unreadable:
                fails.append(("oracle", "gap-bytes", "bytes(m) after the history is not a sequence of records for the schema-less reader",
                              inp(si, ci, ops, origin)))
                break
            if o["bytes"] is not None:
                cnt("last_writer_oracle:bytes_checked")
                if o["bytes"] != want:
                    fails.append(("oracle", "gap-bytes", f"group g{g}: the history set {py_names[g]!r} last but the records of bytes(m) hold members "
                                  f"{o['bytes']} (C07_last_writer_on_wire, all boolean conditions hold)", inp(si, ci, ops, origin, tracker=py_names)))
            for label, present in o["json"].items():
                cnt("last_writer_oracle:to_dict_checked")
                if present != want:
                    fails.append(("oracle", "gap-json", f"group g{g}: the history set {py_names[g]!r} last but {label} holds keys of members {present} "
                                  "(C07_last_writer_in_json, all boolean conditions hold)", inp(si, ci, ops, origin, tracker=py_names)))
            cnt("last_writer_oracle:reads_checked")
            if o["read"] != want:
                fails.append(("oracle", "gap-read", f"group g{g}: the history set {py_names[g]!r} last but the readable members are {o['read']} "
                              "(C07_last_writer_readable, all boolean conditions hold)", inp(si, ci, ops, origin, tracker=py_names)))
    return fails


# --------------------------------------------------------------------------------------
def corpus_histories():
    p = os.path.join(lib.VERIF, "corpus", "C07-regress.json")
    if not os.path.exists(p):
        return []
    return json.load(open(p))["histories"]


def run(ctx):
    rng = ctx.rng
    n_random = 5 if not ctx.thorough else 40
    descs = [{"kind": "matrix"}, {"kind": "c07"}] + [{"kind": "random", "seed": rng.getrandbits(48)} for _ in range(n_random * 3)]
    schemas, kept = [], []
    for d in descs:
        try:
            s = get_schema(d)
        except Exception:
            ctx.count("schema_build_error")
            continue
        if not oneof_classes(s) or (d["kind"] == "random" and len([x for x in kept if x["kind"] == "random"]) >= n_random):
            s.dispose()
            continue
        schemas.append(s)
        kept.append(d)
    prelude = "\n".join(f"Definition sc{i} : schema := {s.coq()}." for i, s in enumerate(schemas))
    pairs, meta = [], []

    # wf_schema holds on every generated schema (the hypothesis of the theorems is met by what is generated)
    for si in range(len(schemas)):
        pairs.append((f"cbool (wf_schema sc{si})", cbool(True)))
        meta.append(("wf", si, None, None, None))

    gap_items = []

    def do_history(si, ci, ops, origin):
        s = schemas[si]
        gap = {}
        coq_ops, snaps, problems, sels = run_history(s, ci, ops, ctx, rng=rng, gap=gap)
        if gap.get("n_ok"):
            gap_items.append((si, ci, ops[:gap["n_ok"]], coq_ops[:gap["n_ok"]], gap["final"], origin))
        ctx.cov["evaluations"] += len(snaps)
        changes = sum(1 for a, b in zip([tuple([None] * s.classes[ci].ngroups)] + sels, sels) if a != b)
        if changes >= 2:
            ctx.seen_nontrivial((kept[si].get("seed", kept[si]["kind"]), ci, tuple(sels)))
        ctx.count(f"history_len:{len(snaps)}")
        ctx.count(f"schema:{kept[si]['kind']}", 1)
        if coq_ops:
            model = f"CL (trace7j {incl_ok(s, ci)} sc{si} (new sc{si} {ci + NBUILTIN}%nat) [{'; '.join(coq_ops)}])"
            pairs.append((model, cl(snaps)))
            meta.append(("hist", si, ci, ops[:len(coq_ops)], (coq_ops, snaps)))
        for step, cls_, text in problems[:3]:
            small = shrink(s, ci, ops[:step + 1], ctx, cls_)
            ctx.fail("oracle", text, cls=cls_,
                     input={"schema": kept[si], "class": ci, "class_name": s.classes[ci].name, "fields": s.describe()[s.classes[ci].name],
                            "ops": small, "origin": origin})
        if len(ctx.cov["samples"]) < 8 and changes >= 2:
            ctx.sample({"class": s.classes[ci].name, "ops": [o["k"] for o in ops[:len(snaps)]], "selections": [list(x) for x in sels][-1]})

    # regression corpus first
    for h in corpus_histories():
        si = next((i for i, d in enumerate(kept) if d["kind"] == h["schema"]), None)
        if si is None:
            continue
        names = [c.name for c in schemas[si].classes]
        do_history(si, names.index(h["class"]), h["ops"], "corpus:" + h["name"])
        ctx.count("corpus_histories")

    n_hist = 300 if not ctx.thorough else 4000
    for hidx in range(n_hist):
        r = rng.random()
        si = 0 if r < 0.2 else 1 if r < 0.65 else rng.randrange(len(schemas))
        s = schemas[si]
        ci = rng.choice(oneof_classes(s))
        n = rng.randint(1, 12)
        ops = []
        shadow = s.classes[ci].py()      # the state so far, so that nested paths can be chosen among readable attributes
        for _ in range(n):
            try:
                op = gen_op7(s, ci, rng, ctx)
                for _retry in range(4):
                    if not (op["k"] in ("set", "get") and op.get("path")):
                        break
                    try:
                        histgen.walk(s, ci, raw_clone(shadow), op["path"])
                        break
                    except AttributeError:      # the path runs through an unselected member: draw another one
                        op = gen_op7(s, ci, rng, ctx)
                ops.append(op)
                try:
                    shadow = apply7(s, ci, raw_clone(shadow), op)[0]
                except Exception:
                    break                       # the real run stops here too
            except msggen.Unmodellable:
                ctx.count("unmodellable_gen")
            except Exception as e:
                ctx.count(f"gen_error:{type(e).__name__}")
        if ops:
            do_history(si, ci, ops, f"random:{hidx}")

    # stage "gap" runs beside the correspondence (its Coq evaluations are independent of it)
    try:
        gap_items.extend(gap_corpus_items(ctx, schemas, kept))
    except Exception as e:
        ctx.fail("corr", f"the hand-written histories of stage gap could not be run: {type(e).__name__}: {e}", no_input=True,
                 theorem_or_correspondence="stage gap")
    lib.ensure_built(GAP_IMPORTS)
    with ThreadPoolExecutor(max_workers=1) as gap_ex:
        gap_future = gap_ex.submit(gap_stage, ctx, schemas, kept, gap_items, prelude)
        try:
            bad = lib.coq_compare(ctx, "c07", IMPORTS, pairs, chunk=24, prelude=prelude)
        finally:
            gap_fails = gap_future.result()
    seen_gap = {}
    for kind, cls_, what, inp in gap_fails:
        key = (kind, cls_, what.split(":")[0][:60])
        seen_gap[key] = seen_gap.get(key, 0) + 1
        ctx.count(f"gap:disagreements:{kind}:{cls_ or what.split(' (')[0][:90]}")
        if seen_gap[key] <= 3:
            ctx.fail(kind, what, cls=cls_, input=inp)
    ctx.count("gap:disagreements", len(gap_fails))
    for i in bad[:6]:
        kind, si, ci, ops, extra = meta[i]
        if kind == "wf":
            ctx.fail("corr", "a generated schema does not satisfy wf_schema (hypothesis of the theorems)", input={"schema": kept[si]})
            continue
        coq_ops, snaps = extra
        # localise: first differing step and component
        loc_pairs = []
        tr = f"(trace7j {incl_ok(schemas[si], ci)} sc{si} (new sc{si} {ci + NBUILTIN}%nat) [{'; '.join(coq_ops)}])"
        for k, sn in enumerate(snaps):
            loc_pairs.append((f"nth {k} {tr} CN", sn))
        where = None
        try:
            b2 = lib.coq_compare(ctx, f"c07loc{i}", IMPORTS, loc_pairs, chunk=4, prelude=prelude)
            where = b2[0] if b2 else None
        except Exception:
            pass
        model_says = ""
        if where is not None:
            model_says = lib.coq_eval(ctx, IMPORTS, f"nth {where} {tr.replace(f'sc{si}', '(' + schemas[si].coq() + ')')} CN")[-3000:]
        ctx.fail("corr", "model (trace7j: raw state / which_one_of / reads / bytes / to_dict keys after every op) and implementation disagree",
                 input={"schema": kept[si], "class": ci, "class_name": schemas[si].classes[ci].name, "ops": ops,
                        "first_differing_step": where, "op_there": ops[where] if where is not None and where < len(ops) else None,
                        "implementation": snaps[where][:3000] if where is not None else None, "model": model_says})
    ctx.cov["disagreements_checked"] = len(pairs) + len(gap_items)
    for s in schemas:
        s.dispose()


def finish(ctx):
    return lib.finish(
        ctx, "proof",
        "Coq theorems (invariant over all finite histories, last-wins, record-level exclusivity of the encoding, parse selects the last member) "
        "over the Gallina mirror of Message.__post_init__/__getattribute__/__setattr__/dump/load/__copy__/__deepcopy__/__reduce__ "
        "+ executable correspondence (vm_compute) with the implementation after every operation of every generated history "
        "+ the property evaluated on the real objects against an independent tracker "
        "+ stage gap: the Coq last-writer tracker and the boolean side conditions of the gap-closing theorems evaluated on the same histories, "
        "compared with the real object and a Python tracker, and the composed last-writer statements required of the implementation wherever "
        "the conditions hold (counts under input_distribution gap:*)",
        ASSUMPTIONS, TRUSTED, RULE,
        extra_cov={"explanation": "theorems are unbounded (all schemas, all classes, all finite histories); the correspondence and the oracle sample histories"})


def replay(ctx, obj):
    inp = obj.get("input") or {}
    print(json.dumps({k: obj.get(k) for k in ("kind", "what", "cls")}, indent=1, default=repr))
    if "ops" not in inp or "schema" not in inp:
        print("nothing to re-run for this replay kind; re-run ./check C07")
        return 0
    s = get_schema(inp["schema"])
    ci = inp["class"]
    print("class", s.classes[ci].name, s.describe()[s.classes[ci].name])
    for op in inp["ops"]:
        print("  op", json.dumps(op)[:300])
    gap = {}
    coq_ops, snaps, problems, sels = run_history(s, ci, inp["ops"], ctx, count=False, gap=gap)
    for step, cls_, text in problems:
        print(f"still failing at step {step} [{cls_}]: {text}")
    rc = 1 if problems else 0
    if gap.get("n_ok"):
        n = gap["n_ok"]
        try:
            gf = gap_stage(ctx, [s], [inp["schema"]], [(0, ci, inp["ops"][:n], coq_ops[:n], gap["final"], "replay")],
                           f"Definition sc0 : schema := {s.coq()}.", count=False, name="c07gapreplay")
        except RuntimeError as e:
            print("stage gap could not be evaluated:", str(e)[-500:])
            gf = [("corr", None, "not evaluated", {})]
        for kind, cls_, what, gi in gf:
            print(f"stage gap still failing [{kind}{'/' + cls_ if cls_ else ''}]: {what}")
            for k in ("coq_track", "python_tracker", "group_current", "which_one_of", "tracker"):
                if k in gi:
                    print(f"    {k}: {gi[k]}")
        if not gf:
            print("stage gap (Coq tracker / side conditions / last-writer statements) passes on this history")
        rc = rc or (1 if gf else 0)
    if coq_ops:
        prelude = f"Definition sc0 : schema := {s.coq()}."
        model = f"CL (trace7j {incl_ok(s, ci)} sc0 (new sc0 {ci + NBUILTIN}%nat) [{'; '.join(coq_ops)}])"
        try:
            bad = lib.coq_compare(ctx, "c07replay", IMPORTS, [(model, cl(snaps))], prelude=prelude)
        except RuntimeError as e:
            print("model could not be evaluated:", str(e)[-500:])
            bad = [0]
        print("model and implementation " + ("DISAGREE on this history" if bad else "agree on this history"))
        rc = rc or (1 if bad else 0)
    if not rc:
        print("passes on this tree")
    return rc
